#!/usr/bin/env python3
"""Confirm a seeded change delivered by a sub-agent and file it under
/verif/seeded/<PROP>-<x>/ (patch.diff rebased on /repo HEAD, demo.py, meta.json).

usage: confirm_seed.py <seed-out-dir> <PROP> <x> [<name>]   e.g. /tmp/seed-out/C17 C17 a
(files <x>.patch.diff etc. are read, the result is filed as seeded/<PROP>-<name>)
Checks, in a scratch worktree of /repo HEAD outside /repo and /verif:
  patch applies; the repository's suite still has the 1127 baseline passes and
  no new failure; the demo exits 1 with the change and 0 without it.
"""
import json
import os
import re
import shutil
import subprocess
import sys

PY = '/venv/bin/python'


def sh(cmd, **kw):
    return subprocess.run(cmd, capture_output=True, text=True, **kw)


def run_suite(wt):
    r = sh([PY, '-m', 'pytest', '-q', '-p', 'no:cacheprovider', '--timeout=900',
            '-rf'], cwd=wt, timeout=1800)
    failed = sorted(set(re.findall(r'^FAILED (\S+)', r.stdout, re.M)))
    m = re.search(r'(\d+) passed', r.stdout)
    passed = int(m.group(1)) if m else 0
    return passed, failed


def main():
    src, prop, x = sys.argv[1:4]
    outx = sys.argv[4] if len(sys.argv) > 4 else x
    patch = os.path.join(src, x + '.patch.diff')
    demo = os.path.join(src, x + '.demo.py')
    meta = os.path.join(src, x + '.meta.json')
    out = {'property': prop, 'variant': x, 'ok': False}
    if not (os.path.exists(patch) and os.path.exists(demo)):
        out['error'] = 'missing files'
        print(json.dumps(out))
        return 1
    base = '/tmp/confirm'
    os.makedirs(base, exist_ok=True)
    wt = os.path.join(base, '%s-%s-%d' % (prop, outx, os.getpid()))
    sh(['git', '-C', '/repo', 'worktree', 'remove', '--force', wt])
    r = sh(['git', '-C', '/repo', 'worktree', 'add', '--detach', wt, 'HEAD'])
    try:
        base_file = '/tmp/confirm/baseline-failed.json'
        head = sh(['git', '-C', '/repo', 'rev-parse', 'HEAD']).stdout.strip()
        baseline = None
        if os.path.exists(base_file):
            b = json.load(open(base_file))
            if b['head'] == head:
                baseline = b
        if baseline is None:
            p, f = run_suite(wt)
            baseline = {'head': head, 'passed': p, 'failed': f}
            json.dump(baseline, open(base_file, 'w'))
        # demo on the unchanged tree
        r0 = sh([PY, demo, wt], timeout=900,
                env=dict(os.environ, PYTHONDONTWRITEBYTECODE='1'))
        out['demo_unchanged_rc'] = r0.returncode
        a = sh(['git', '-C', wt, 'apply', patch])
        if a.returncode != 0:
            a = sh(['git', '-C', wt, 'apply', '--3way', patch])
        if a.returncode != 0:
            out['error'] = 'patch does not apply: ' + a.stderr[-300:]
            print(json.dumps(out))
            return 1
        sh(['git', '-C', wt, 'reset', '-q'])
        diff = sh(['git', '-C', wt, 'diff']).stdout
        p, f = run_suite(wt)
        out['tests_passed'] = p
        out['new_failures'] = sorted(set(f) - set(baseline['failed']))
        out['baseline_passed'] = baseline['passed']
        r1 = sh([PY, demo, wt], timeout=900,
                env=dict(os.environ, PYTHONDONTWRITEBYTECODE='1'))
        out['demo_changed_rc'] = r1.returncode
        out['demo_changed_tail'] = (r1.stdout + r1.stderr)[-600:]
        out['ok'] = (p >= baseline['passed'] and not out['new_failures']
                     and r1.returncode == 1 and r0.returncode == 0)
        if out['ok']:
            dst = '/verif/seeded/%s-%s' % (prop, outx)
            os.makedirs(dst, exist_ok=True)
            with open(os.path.join(dst, 'patch.diff'), 'w') as fh:
                fh.write(diff)
            shutil.copy(demo, os.path.join(dst, 'demo.py'))
            m = {}
            if os.path.exists(meta):
                try:
                    m = json.load(open(meta))
                except Exception:
                    m = {'raw': open(meta).read()}
            m.update({
                'property': prop,
                'confirmed': {
                    'repo_head': head,
                    'suite': '%d passed, new failures: %s' % (p, out['new_failures']),
                    'demo_with_change_rc': r1.returncode,
                    'demo_without_change_rc': r0.returncode,
                    'commands': [
                        'git worktree add --detach %s HEAD; git apply patch.diff' % wt,
                        'pytest -q -p no:cacheprovider --timeout=900 -rf',
                        '%s demo.py <tree>' % PY],
                },
            })
            with open(os.path.join(dst, 'meta.json'), 'w') as fh:
                json.dump(m, fh, indent=1)
    finally:
        sh(['git', '-C', '/repo', 'worktree', 'remove', '--force', wt])
        shutil.rmtree(wt, ignore_errors=True)
    print(json.dumps(out))
    return 0 if out['ok'] else 1


if __name__ == '__main__':
    sys.exit(main())
