#!/bin/bash
# usage: tools/try_seed.sh <patch.diff> <check-id> [tier] [extra args]
# Applies a seeded change to a scratch worktree of /repo HEAD (outside /repo and
# /verif), runs the check against it (VERIF_REPO), and always removes the worktree.
# (Equivalent to `git -C /repo apply`; a scratch copy keeps concurrent runs that
# use /repo undisturbed.)  Set SEED_IN_PLACE=1 to apply to /repo itself instead.
set -u
patch=$(realpath "$1"); check=$2; tier=${3:-quick}; shift; shift; shift || true
cd "$(dirname "$0")/.."
if [ "${SEED_IN_PLACE:-0}" = 1 ]; then
  wt=/repo
  if ! git -C /repo diff --quiet; then echo "/repo has uncommitted changes" >&2; exit 9; fi
else
  wt=$(mktemp -d /tmp/seedwt-XXXXXX); rmdir "$wt"
  git -C /repo worktree add --detach "$wt" HEAD >/dev/null 2>&1 || { echo "cannot create worktree"; exit 9; }
fi
cleanup() {
  if [ "$wt" = /repo ]; then git -C /repo reset -q --hard HEAD; git -C /repo checkout -- .
  else git -C /repo worktree remove --force "$wt" >/dev/null 2>&1; rm -rf "$wt"; fi
}
trap cleanup EXIT
if git -C "$wt" apply --check "$patch" 2>/dev/null; then
  git -C "$wt" apply "$patch"
elif git -C "$wt" apply --3way "$patch" >/dev/null 2>&1 && ! grep -rq '^<<<<<<< ' "$wt/gemato" "$wt/utils"; then
  git -C "$wt" reset -q
else
  echo "PATCH DOES NOT APPLY: $patch"; exit 8
fi
VERIF_REPO="$wt" timeout 2400 /venv/bin/python -m vf.run "$check" --tier "$tier" "$@"
rc=$?
echo "== seed $patch on $check ($tier): exit $rc"
exit $rc
