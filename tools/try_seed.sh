#!/bin/bash
# usage: tools/try_seed.sh <patch.diff> <check-id> [tier] [extra args]
# Applies a seeded change to /repo, runs the check, and always reverts.
set -u
patch=$(realpath "$1"); check=$2; tier=${3:-quick}; shift; shift; shift || true
cd /verif
if ! git -C /repo diff --quiet; then echo "/repo has uncommitted changes" >&2; exit 9; fi
if git -C /repo apply --check "$patch" 2>/dev/null; then
  git -C /repo apply "$patch"
elif git -C /repo apply --3way "$patch" >/dev/null 2>&1 && ! grep -rq '^<<<<<<< ' /repo/gemato /repo/utils; then
  git -C /repo reset -q
else
  git -C /repo reset -q --hard HEAD
  echo "PATCH DOES NOT APPLY: $patch"; exit 8
fi
timeout 2400 /venv/bin/python -m vf.run "$check" --tier "$tier" "$@"
rc=$?
git -C /repo reset -q --hard HEAD
git -C /repo checkout -- .
echo "== seed $patch on $check ($tier): exit $rc"
exit $rc
