#!/bin/bash
# usage: tools/run_seeds.sh <check-id> [tier]   - run every seeded change of that property
cd "$(dirname "$0")/.."
check=$1; tier=${2:-quick}
for d in seeded/$check-*/; do
  out=$(tools/try_seed.sh $d/patch.diff $check $tier 2>&1)
  rc=$(echo "$out" | grep -o 'exit [0-9]*$' | tail -1)
  keys=$(echo "$out" | grep -E '^  key=' | cut -c1-150 | head -3 | tr '\n' ';')
  echo "$d $rc  $keys"
done
