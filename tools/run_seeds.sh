#!/bin/bash
# usage: tools/run_seeds.sh <check-id> [tier] [variants, e.g. "c d"]  - run seeded changes of that property
cd "$(dirname "$0")/.."
check=$1; tier=${2:-quick}; variants=${3:-}
for d in seeded/$check-*/; do
  v=$(basename $d); v=${v#$check-}
  if [ -n "$variants" ] && ! echo " $variants " | grep -q " $v "; then continue; fi
  out=$(tools/try_seed.sh $d/patch.diff $check $tier 2>&1)
  rc=$(echo "$out" | grep -o 'exit [0-9]*$' | tail -1)
  keys=$(echo "$out" | grep -E '^  key=' | cut -c1-150 | head -3 | tr '\n' ';')
  echo "$d $rc  $keys"
done
