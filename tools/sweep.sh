#!/bin/bash
# usage: [CHECKS="C01 C07"] tools/sweep.sh <tier> <seed...>   - run every registered check (or those named), print one line each
cd "$(dirname "$0")/.."
tier=$1; shift
for seed in "$@"; do
  for c in ${CHECKS:-C01 C02 C03 C04 C05 C06 C07 C08 C09 C10 C11 C12 C13 C14 C15 C16 C17 C18 C19 C20}; do
    out=$(VERIF_SEED=$seed timeout 7200 /venv/bin/python -m vf.run $c --tier $tier 2>&1)
    rc=$?
    echo "$c seed=$seed rc=$rc $(echo "$out" | grep -E '^C[0-9]+ ' | tail -1 | cut -c1-120) $(echo "$out" | grep -cE '^VIOLATION') viol $(echo "$out" | grep -cE '^INCONCLUSIVE') inconcl"
    if [ $rc -ne 0 ]; then echo "$out" | grep -E "^VIOLATION|^  key|^INCONCLUSIVE" | head -5 | cut -c1-300; fi
  done
done
