#!/usr/bin/env python3
"""Regenerates MANIFEST.json from the table below (kept in one place so that it
is always valid).  Run:  python3 tools_manifest.py"""
import json
import os

HERE = os.path.dirname(os.path.abspath(__file__))
PY = '/venv/bin/python'

CHECKS = {
 'C08': dict(
    category='exploration', design='3 C08',
    technique='runtime monitoring: real writer/parser driven over every code point and seeded hostile entry lists, independent reader + round-trip oracle, icontract post-condition on encoded_path',
    text='Every code point 0..0x10FFFF in five neighbour contexts (exhaustive) plus seeded random entry lists, parser-accepted grammar/mutation texts and real files in all five formats are written and re-read by the real ManifestFile; an independent reader checks every written line. Held on the executions observed; exhaustive only for the single-code-point sub-space.',
    note='Trusted: the independent reader/writer in vf/model/mtext.py, Python str semantics. Timestamps restricted to whole seconds without tzinfo.'),
 'C09': dict(
    category='exploration', design='3 C09',
    technique='runtime monitoring: real parser vs independent three-valued line classifier over exhaustive escape/token spaces and seeded grammar/mutation texts',
    text='ManifestFile.load is run on every \\xHH and \\uHHHH escape, a stride (quick) or all (thorough) \\UHHHHHHHH values, all short token sequences, and seeded grammar and byte-mutation texts; each outcome is compared with a classifier written from the statement (must-accept with decoded entries / must-reject / unconstrained) and any foreign exception type is a violation.',
    note='Trusted: vf/model/classify.py. Zones U5/U6 (exotic integer syntax, surrogate escapes, lenient timestamps, exotic whitespace) are unconstrained: only totality is checked there.'),
 'C17': dict(
    category='exploration', design='3 C17',
    technique='runtime monitoring: real hash_file/hash_path/get_file_metadata/`gemato hash` under every length class, size hint and short-read schedule (raw stream + real pipe bursts) vs one-shot digests cross-checked with coreutils/openssl',
    text='Every content length 0..300 and around 64 KiB / 128 KiB / 1 MiB, random lengths to 5 MiB, every size hint class and seeded short-read schedules are run through the real hashing entry points; digests and sizes are compared with independent one-shot digests (themselves validated against md5sum/sha*sum/b2sum/openssl), and unsupported names must raise UnsupportedHash.',
    note='Trusted: hashlib one-shot digests (KAT-validated per run against coreutils/openssl), the GLEP-74 name table in vf/model/mtext.py. WHIRLPOOL is unavailable in this Python, so only its rejection is observed.'),
 'C04': dict(
    category='exploration', design='3 C04',
    technique='runtime monitoring: exhaustive line-class sequences through the real loader with a recording mock OpenPGP env vs independent cleartext-framing recogniser (FSM state x class pairs observed via sys.monitoring), plus differential against real gpg --decrypt on mutated gpg-signed Manifests',
    text='(a) every sequence of up to 5 (quick) / 7 (thorough) lines over ten line classes, with and without final newline, verification on (mock) and off, is loaded by the real ManifestFile.load; entries, exception class and the exact text handed to verification are compared with an independent recogniser of RFC 4880 section 7 framing. (b) seeded textual mutants of Manifests genuinely signed by gpg: whenever the verified load succeeds, entries must equal what gpg --decrypt authenticated.',
    note='Trusted: vf/model/cleartext.py, vf/model/mtext.py, GnuPG 2.2 as the authenticating implementation. Armor-like lines inside the armor-header section and an END line without final newline are unconstrained (U13).'),
 'C05': dict(
    category='exploration', design='3 C05',
    technique='runtime monitoring: bounded-exhaustive gpg status sequences through the real verifier with a fake backend process vs independent acceptance predicate; real gpg key-state x owner-trust matrix, single-character mutation of signed text, audit-hook SpawnAudit + keyring snapshots for -K isolation, CLI flag matrix',
    text='Every sequence of up to 4 (quick) / 5 (thorough) real gpg status lines x exit status is fed to the real verify_file through ManifestFile.load (long-lived and fresh instances) with subprocess replaced inside gemato.openpgp; acceptance must satisfy the necessity predicate always and sufficiency for single-signature reports. Real gpg: eight key states x five owner-trust levels with explicit monotonicity, every position of the signed body mutated, verify -K under three user keyrings with every gpg spawn audited and the user keyring snapshotted, and the -s/-P/-K matrix.',
    note='Trusted: the acceptance predicate in vf/checks/c05.py, GnuPG 2.2.40, vendored test keys. Network key refresh is out of reach offline (all runs use -R). PGPy backend not installed.'),
 'C15': dict(
    category='exploration', design='3 C15',
    technique='runtime monitoring: contract on find_top_level_manifest comparing every call with an independent upward walk, over exhaustive short chains and seeded deep ones, incl. tmpfs device boundaries in a private mount namespace',
    text='All chains of depth <= 2 (quick) / 3 (thorough) over per-level Manifest kind x IGNORE kind, from every start depth, absolute and relative start, both flags, are materialised on disk; a contract compares each real call with an independent model. Device boundaries are real: a tmpfs mounted at a chain level inside unshare -m (fallback /dev/shm, recorded in the evidence).',
    note='Trusted: vf/model/findtop.py and the independent Manifest reader. Start directories reached via symlinks and syntactically invalid Manifests on the chain are not generated.'),
 'C01': dict(
    category='exploration', design='3 C01',
    technique='runtime monitoring: real recursive verifier (library + CLI) on seeded mutated trees vs independent match predicate; hash_file hook (skip-set), icontract contracts on path_starts_with/path_inside_dir/find_top_level_manifest',
    text='Seeded trees with consistent Manifest layouts (nesting, split Manifests, five compression formats, duplicate entries, IGNORE look-alikes, symlinks, hidden and special files) get 0..3 mutations from 23 classes; assert_directory_verifies and `gemato verify` run on a random sub-path and last_mtime and must accept exactly when the independent predicate finds no offender. A hook records which files were really hashed, so an unlicensed skip is seen even when contents still match.',
    note='Trusted: vf/model/match.py, vf/model/mtext.py. Zones U1-U4, U10, U11 (entries beneath IGNORE, IGNORE+entry, dangling links, licensed mtime skips, unnormalised paths, entries beneath a file) are unconstrained. Small trees (<= 14 files).'),
 'C07': dict(
    category='exploration', design='3 C07',
    technique='runtime monitoring: recording fail handler + logging handler on the real keep-going verifier (library and CLI, single and multiple paths) under permuted os.walk orders vs independent offender sets; RLIMIT_NOFILE stress; symlink-loop-next-to-discrepancies cases',
    text='Trees with 2..12 simultaneous discrepancies are verified with recording handlers of four policies and `gemato verify -k`; reported paths must satisfy required <= reported <= required+optional with no duplicates and none outside the sub-path, every non-ignored directory must be walked, the overall result/exit status must equal "no handler call returned False", also over several path arguments. Stress units lower RLIMIT_NOFILE so per-offender leaks surface; loop units require ManifestSymlinkLoop under lenient handlers.',
    note='Trusted: vf/model/match.py. The Manifest chain is kept intact and duplicates agree (those are raised directly). Handler return values restricted to True/False/None.'),
 'C02': dict(
    category='exploration', design='3 C02',
    technique='runtime monitoring: attacker workload (independent writer recomputes Manifests up to level k) against every lookup/verify API of a fresh real loader, with a ChainInvariant monitor re-deriving from disk that each loaded sub-Manifest matches a loaded parent entry',
    text='For every chain depth (1..3 complete in quick, 1..5 in thorough), tamper kind (file or DIST changed/added/removed), attacker level k and API, the real loader must raise ManifestMismatch naming the first broken link and never return a result; after every call loaded_manifests is checked against the bytes on disk. A variant makes a link unverifiable (only uncomputable hash names, equal sizes): nothing below it may be trusted. Stealth variants keep sizes and put back - or set to the epoch and earlier - the timestamps of the forged Manifests; histories on a long-lived loader precede the judged call (innocent lookups, a failed sibling update, a pending unsaved entry refresh in the top directory).',
    note='Trusted: independent writer/reader, one-shot hashlib. Hash collisions are out of scope. Directory updates (which load unverified by design) are not covered here.'),
 'C06': dict(
    category='fault_enumeration', design='3 C06',
    technique='runtime fault injection: Python-level failpoints on every file-system call class (counting run, then one execution per class x call index x errno), kernel-level strace -e inject on a sample, genuine EACCES as uid 65534; WriteAudit (sys.addaudithook) + tree snapshots for the update half',
    text='For each generated tree (consistent, or consistent plus one stray) and each of strict verify, keep-going verify and the scan phase of update, every single placement of an injected OSError at os.open/open/os.stat/os.fstat/os.scandir/scandir iteration/binary read/text read is executed: the result must never be success, and a failing update must leave no write event and a byte-identical tree; the same with more than one job requested (max_jobs / --jobs) and through `gemato verify` with messages emitted. A strace layer injects the same faults in the kernel on a sample; a privilege-dropped child meets real mode-000 files, directories and Manifests.',
    note='Single faults only. ENOENT/ENXIO/EOPNOTSUPP excluded. Stat-family faults injected at the kernel boundary are not decidable (CPython io.open ignores its own fstat failures) and only counted. Errno set of ten values; quick uses all ten for call classes with <= 16 calls and three otherwise.'),
 'C16': dict(
    category='exploration', design='3 C16',
    technique='runtime monitoring: the three real tree walkers under a logical step budget (wrapped os.walk with permuted order) on enumerated directory shapes x symlink sets vs an independent ancestor-stack exploration; real second file system (/dev/shm) for the one-file-system half',
    text='Every directory shape with <= 3 (quick) / 4 (thorough) directories and every set of <= 2 / 3 directory symlinks among all (location, target) pairs, with IGNORE on a link or above it, is walked by verify (lenient handler), the unregistered-Manifest scan and update: ManifestSymlinkLoop must be raised exactly when a non-ignored link leads back to an ancestor, nothing may exceed 4000 directory steps, and files behind other links must verify like ordinary files. With allow_xdev=False a linked-in /dev/shm directory or file must raise ManifestCrossDevice from every walker (also when the top-level Manifest is only being created, and for a foreign sub-Manifest that is due for rewriting), never when ignored or allowed. Every link may have a pruned (hidden or IGNOREd) directory next to it.',
    note='Trusted: the exploration in vf/checks/c16.py (explore), os.stat identities. A stray file on another device may be reported as a stray mismatch instead of the cross-device error in verify mode (counted, not a violation). Wall-clock watchdogs only ever yield inconclusive.'),
 'C03': dict(
    category='exploration', design='3 C03',
    technique='runtime monitoring: histories of (edits; real update+save via library or CLI) from generated prior Manifest states, each completed round checked by an independent post-condition (reader + own walk + one-shot hashing) and a fresh verification; permuted os.walk order',
    text='From a generated tree with a prior Manifest state (exact, stale, duplicates, ghost entries, stale chains, unregistered valid/invalid/undecodable sub-Manifests, split Manifests in one directory, compressed, or none at all) 1..3 rounds of edits + update + save are run with random hash sets, sort/force/compression options and whole-tree or sub-directory scope. After every round that completed without error the independent post-condition (every in-scope regular file covered exactly once with true size and exactly the requested digests, no vanished entries, every Manifest in use referenced with true size/digests) and a fresh verification must hold.',
    note='Trusted: vf/model/update_post.py, vf/model/match.py. Nothing is claimed when update raised. Directories holding several Manifest-named files, and Manifests aliased through directory symlinks, are unconstrained (U14/U15). Known findings: value-equality list.remove in deduplication (asserted by an existing test, hence not fixable), stale chain above a sub-directory scope.'),
 'C12': dict(
    category='exploration', design='3 C12',
    technique='runtime monitoring: repeated real update with WriteAudit (sys.addaudithook) + byte/mtime_ns/inode snapshots for idempotence; replica comparison under permuted os.walk order and permuted previous entry order for canonical output',
    text='idem: after a first update (library, CLI, CLI -t) a second one on the unchanged tree must produce no write-intent audit event and leave every Manifest with the same bytes, mtime_ns and inode. canon: 2..4 replicas of a tree whose previous Manifests list the same entries in different orders are updated with sort=True and forced rewrite under different directory enumeration orders; every Manifest file must be byte-identical across replicas (compressed bytes included).',
    note='Forced rewrites are excluded from the idempotence half. Canonical half needs <= 1 Manifest per directory. Known finding (shared with C03): same-Manifest duplicate entries.'),
 'C10': dict(
    category='exploration', design='3 C10',
    technique='runtime monitoring: WriteAudit (sys.addaudithook) over operation histories on one real loader incl. failing updates (loop, cross-device, injected I/O error, entry naming a directory) + full tree snapshots + offline conservation checker over Manifest lines read independently',
    text='Histories of 3..8 operations (verify, lookups, update dir/path, save, discard) on one loader, and CLI updates with/without -t and compression options, are observed by an audit hook: no write-intent event may occur before a save, a save may only touch Manifest files, no other file may change in bytes/mtime/mode or appear/vanish. After saves that followed successful updates the multisets of DIST and IGNORE lines, the TIMESTAMP lines (unless the CLI whole-tree rule applies), the type of surviving file entries and every entry outside the updated directories (except MANIFEST entries on the chain, or anywhere after a forced save) must be conserved.',
    note='Writes by child processes are invisible to the audit hook (snapshot comparison covers them). Conservation is not demanded for a save issued after an update that failed part-way, in directories with several Manifest-named files (U14), and out-of-scope comparison is skipped in trees with directory symlinks (aliased paths, U15).'),
 'C13': dict(
    category='exploration', design='3 C13',
    technique='runtime monitoring: metamorphic comparison of the real loader across all compression assignments of one logical tree; WriteAudit-identified rewritten Manifests checked against the watermark rule after real saves at and around every Manifest size',
    text='meta: one logical tree (consistent or mutated) is rendered with all 5**k (sampled to 25 in quick) format assignments of its sub-Manifests; keep-going verification results, reported paths, find_path_entry and find_dist_entry results must be identical. wm: sequences of 2..4 saves with watermark 0 / size-1 / size / size+1 / max+1, each target format, forced or after a dirtying update: every sub-Manifest the audit hook saw rewritten must be compressed iff its uncompressed size >= watermark, compressed ones keep their format, the top-level Manifest is never compressed, one file per logical Manifest, no dangling reference, and a fresh verification succeeds.',
    note='Trusted: independent reader/writer, the audit hook for "rewritten". Directories with several Manifest-named files are excluded (U14).'),
 'C11': dict(
    category='exploration', design='3 C11',
    technique='runtime monitoring: replica comparison (incremental vs full `gemato update`) over histories with os.utime-controlled mtimes under tzset-switched timezones; scan hook recording the first-scanned instant and injecting a modification right after a file was hashed',
    text='Two replicas live through the same 1..4 (quick) / 1..6 (thorough) rounds of add/delete/modify/touch with mtimes placed older than, equal to, 1 s / 30 min / 1 h / 10 h after the previous TIMESTAMP (read back from the Manifest), one updated incrementally, one fully, under TZ in {UTC, XXX-8, XXX8, XXX-5:30, XXX12}: Manifests must be equal apart from TIMESTAMP whenever every same-size change ends up newer than the TIMESTAMP; a TIMESTAMP written by an update must not be later than the instant the hook saw the first file scanned (also when the previous TIMESTAMP lay in the future); a file modified by the hook right after it was hashed must be picked up by the next incremental run. Directories arriving with their own Manifests, and a Manifest dropped between the top and a registered sub-Manifest that lists an untouched, old file with wrong checksums (dedup unit, TIMESTAMP moved to a fixed date), count as file additions.',
    note='Timezones sampled, no DST rules. Same-size changes not newer than the TIMESTAMP are unconstrained (U4). Assumes the system clock does not step during a run.'),
 'C14': dict(
    category='exploration', design='3 C14',
    technique='runtime monitoring: sign-option x key-state matrix through the real loader/CLI with a real GnuPG home; the written files are judged by gpg itself (--verify, --decrypt) and by the independent reader (post-condition, armor scan of every sub-Manifest)',
    text='For generated layouts (nested, split and compressed sub-Manifests, hostile paths, plain or compressed top-level Manifest) and every combination of sign {unset,on,off} x originally signed/unsigned x key id {default, explicit, wrong} x secret key {usable, absent} the top-level Manifest written by update+save must be a cleartext-signed message exactly when signing was requested or inherited; gpg --verify must accept it with the expected key, gpg --decrypt must yield the entries in the file, those entries must describe the current tree, no sub-Manifest may contain armor, and an impossible signing (no key, wrong key id, a line longer than GnuPG covers - counted in bytes) must raise OpenPGPSigningFailure without leaving a plain Manifest with entries. A top-level Manifest signed on disk and loaded again on a long-lived loader has to be saved signed.',
    note='Trusted: GnuPG 2.2.40 + gpg-agent, vendored test key, independent reader. A top-level Manifest that did not have to be rewritten is not judged.'),
 'C19': dict(
    category='exploration', design='3 C19',
    technique='runtime monitoring: `gemato create/update -p PROFILE` on generated ebuild repositories under permuted os.walk order vs an independent policy model (placement, default IGNOREs, entry types, hashes, sorting, compression) + independent post-condition + fresh default-profile verification',
    text='Generated repositories (categories x packages with ebuilds, metadata.xml, nested files/, eclass, licenses, profiles, metadata with dtd/glsa/news/xml-schema/md5-cache, ignored distfiles/local/packages) are run through create and 0..3 rounds of edits + update for each profile and override combination: the directories holding a Manifest, the default IGNORE entries of new Manifests, every entry type, the hash set, sortedness and the compression state of every sub-Manifest must follow the documented policy, the entries must describe the tree, and a plain default-profile loader must verify the result.',
    note='Trusted: vf/model/policy.py (written from the profile documentation), independent reader. U12: top-level directories with sub-directories but no package, and metadata.xml outside category/package directories. Existing Manifests are never expected to disappear on update.'),
 'C20': dict(
    category='exploration', design='3 C20',
    technique='runtime monitoring: the bundled fast generator scripts run as real subprocesses on generated repositories; their output judged by the real verifier, the independent reader/post-condition and a semantic before/after diff around `gemato update -p ebuild`',
    text='For generated repositories with the standard layout (with and without pre-existing package Manifests carrying DIST entries) gen_fast_metamanifest.py on the repository or gen_fast_manifest.py on one package directory must exit 0, the result must pass `gemato verify`, cover every file exactly once with true size/BLAKE2B/SHA512, be left semantically unchanged (TIMESTAMP aside) by `gemato update -p ebuild`, and after 0..5 edits an update must yield a tree that verifies and describes the files exactly.',
    note='Domain: portable names, ignored directories absent, and the standard directories the meta script hard-codes present (otherwise it exits non-zero). For single package directories the no-op/edit update is only judged when files/ has no sub-directories (the ebuild profile applied at a package root would otherwise want extra Manifests).'),
 'C18': dict(
    category='exploration', design='3 C18',
    technique='runtime monitoring: totality monitor around gemato.cli.main over the generated trees/texts/repositories of the other checks x command battery; escaped exceptions classified (library / genuine OSError re-probed / internal) and keyed by exception type + innermost gemato frame',
    text='Generated trees with up to four mutations from all classes (incl. odd ones: entries naming directories, entries beneath a file, duplicate IGNOREs, unsupported hashes, unreferenced valid/invalid/undecodable Manifests), C09 grammar/mutation texts and hand-picked odd texts planted as top-level Manifest, and odd ebuild repositories are run through verify, verify -k, verify SUBDIR, update, update SUBDIR for every sub-directory, update -p PROFILE and create -p PROFILE: main() must return 0 or 1 or raise argparse SystemExit or an OSError whose failing access can be reproduced.',
    note='Mechanism-keyed known findings (8): NUL / lone-surrogate paths reaching os.open/open, old-ebuild AUX assertion, NotImplementedError for now-ignored parent entries, the Unlinked-but-updated assertion. Non-UTF-8 content in plain files named Manifest is outside the domain.'),
}

def main():
    checks = []
    for pid in sorted(CHECKS):
        c = CHECKS[pid]
        checks.append({
            'property_id': pid,
            'quick_cmd': f'{PY} -m vf.run {pid} --tier quick',
            'thorough_cmd': f'{PY} -m vf.run {pid} --tier thorough',
            'evidence_file': f'/verif/evidence/{pid}.json',
            'replay_cmd_template': f'{PY} -m vf.run {pid} --replay {{path}}',
            'engine': 'vf',
            'level_claimed': {'category': c['category'], 'text': c['text'],
                              'design_ref': 'DESIGN.md section ' + c['design']},
            'level_note': c['note'],
            'technique': c['technique'],
        })
    props = [json.loads(l)['id'] for l in open(os.path.join(HERE, 'properties.jsonl'))]
    na = [{'property_id': p, 'reason': 'no check registered'}
          for p in props if p not in CHECKS]
    m = {
        'version': 1,
        'setup_cmd': f'{PY} -m vf.setup',
        'hooks': {
            'guard': 'GEMATO_VERIF',
            'enable': 'no source hooks: monitors attach from outside (attribute rebinding, sys.addaudithook, sys.monitoring, fake/real gpg); GEMATO_VERIF=1 is set for workers and read only by the harness',
            'baseline_off_cmd': 'cd /repo && /venv/bin/python -m pytest -ra -q -p no:cacheprovider --timeout=900 --continue-on-collection-errors',
            'source_commits': [],
            'add_only': True,
        },
        'engines': [{'name': 'vf', 'path': '/verif/vf',
                     'serves_properties': sorted(CHECKS),
                     'kind_free_text': 'runtime monitoring harness: sharded seeded workloads on the real code, independent reference models, hooks/contracts/audit monitors, fault injection, offline history checkers'}],
        'checks': checks,
        'notes': 'Exit codes: 0 held (KNOWN-FINDING lines possible), 1 VIOLATION, 2 INCONCLUSIVE (never expected on the unchanged tree). Known findings: /verif/known-findings.txt.',
        'not_applicable': na,
    }
    with open(os.path.join(HERE, 'MANIFEST.json'), 'w') as f:
        json.dump(m, f, indent=1)
        f.write('\n')

if __name__ == '__main__':
    main()
