"""Independent statement of the ebuild-repository profile policy (C19), written
from the profile documentation and GLEP 74, not from gemato/profile.py."""
import os

from vf.model import mtext

TOP_IGNORES = {'distfiles', 'local', 'lost+found', 'packages'}
META_IGNORES = {'timestamp', 'timestamp.chk', 'timestamp.commit', 'timestamp.x'}
META_SUB_IGNORES = {'timestamp.chk', 'timestamp.commit'}
SPECIAL_TOP = ('eclass', 'licenses', 'metadata', 'profiles')
META_SUBS = ('dtd', 'glsa', 'md5-cache', 'news', 'xml-schema')
MAN_NAMES = ['Manifest'] + ['Manifest.' + s for s in mtext.SUFFIXES]


def _listdir(p):
    try:
        return sorted(os.listdir(p))
    except OSError:
        return []


def is_package_dir(root, rel):
    names = _listdir(os.path.join(root, rel))
    return any(n.endswith('.ebuild') for n in names) or 'metadata.xml' in names


def expected_dirs(root):
    """-> (required, optional) sets of directories (relative, '' = top) that hold /
    may hold a Manifest under the ebuild profiles."""
    required, optional = {''}, set()
    for d1 in _listdir(root):
        p1 = os.path.join(root, d1)
        if d1.startswith('.') or not os.path.isdir(p1) or os.path.islink(p1):
            continue
        if d1 in TOP_IGNORES:
            continue
        subs = [x for x in _listdir(p1) if os.path.isdir(os.path.join(p1, x))]
        files1 = [x for x in _listdir(p1) if not os.path.isdir(os.path.join(p1, x))]
        if d1 in SPECIAL_TOP:
            required.add(d1)
        elif any(is_package_dir(root, d1 + '/' + s) for s in subs
                 if not s.startswith('.')) or 'metadata.xml' in files1:
            required.add(d1)          # a category
        elif subs:
            optional.add(d1)          # U12: sub-directories but no package
        for d2 in subs:
            if d2.startswith('.'):
                continue
            rel2 = d1 + '/' + d2
            if d1 == 'metadata':
                if d2 in META_SUBS:
                    required.add(rel2)
                if d2 == 'md5-cache':
                    for d3 in _listdir(os.path.join(root, rel2)):
                        if os.path.isdir(os.path.join(root, rel2, d3)) and \
                                not d3.startswith('.'):
                            required.add(rel2 + '/' + d3)
                if 'metadata.xml' in _listdir(os.path.join(root, rel2)):
                    optional.add(rel2)
            elif d1 in SPECIAL_TOP:
                if is_package_dir(root, rel2):
                    optional.add(rel2)    # ebuild-looking dir inside eclass/... (U12)
            elif is_package_dir(root, rel2):
                required.add(rel2)
        # metadata.xml deeper down (U12)
        for dp, dn, fn in os.walk(p1):
            rel = os.path.relpath(dp, root)
            if rel.count('/') >= 2 and 'metadata.xml' in fn:
                optional.add(rel)
    return required, optional


def manifest_dirs(root):
    out = {}
    for dp, dn, fn in os.walk(root):
        for f in fn:
            if f in MAN_NAMES:
                rel = os.path.relpath(dp, root)
                out.setdefault('' if rel == '.' else rel, []).append(f)
    return out


def expected_ignores(mdir):
    if mdir == '':
        return TOP_IGNORES
    if mdir == 'metadata':
        return META_IGNORES
    if mdir in ('metadata/dtd', 'metadata/glsa', 'metadata/news', 'metadata/xml-schema'):
        return META_SUB_IGNORES
    return set()


def expected_tag(profile, full, is_manifest):
    """Tag of the entry for tree path @full."""
    if is_manifest:
        return 'MANIFEST'
    if profile != 'old-ebuild':
        return 'DATA'
    parts = full.split('/')
    if len(parts) >= 3 and parts[0] not in SPECIAL_TOP + tuple(TOP_IGNORES):
        if len(parts) == 3 and parts[2].endswith('.ebuild'):
            return 'EBUILD'
        if len(parts) == 3 and parts[2] == 'metadata.xml':
            return 'MISC'
        if parts[2] == 'files' and len(parts) > 3:
            return 'AUX'
    return 'DATA'
