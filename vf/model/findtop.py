"""Independent statement of top-level Manifest discovery (C15).

find_top(start, allow_xdev, allow_compressed) -> Result with
  .answers   set of acceptable absolute real paths (or {None})
  .unconstrained reason or None
"""
import os

from vf.model import mtext

COMPRESSED = ['.gz', '.bz2', '.lzma', '.xz']


class Result:
    def __init__(self):
        self.answers = {None}
        self.unconstrained = None
        self.levels = []


def _ignores(entries, rel):
    for e in entries:
        if e['tag'] == 'IGNORE' and rel != '' and mtext.comp_prefix(rel, e['path'].rstrip('/')):
            return True
    return False


def find_top(start, allow_xdev=True, allow_compressed=False):
    res = Result()
    start_real = os.path.realpath(start)
    try:
        dev0 = os.stat(start_real).st_dev
    except OSError as exc:
        res.unconstrained = 'start not accessible: %r' % (exc,)
        return res
    cur = start_real
    symlinked = os.path.normpath(os.path.abspath(start)) != start_real
    last = {None}
    rel_parts = []
    while True:
        st = os.stat(cur)
        if st.st_dev != dev0 and not allow_xdev:
            break
        names = ['Manifest'] + (['Manifest' + s for s in COMPRESSED]
                                if allow_compressed else [])
        present = [n for n in names if os.path.lexists(os.path.join(cur, n))]
        res.levels.append((cur, present))
        if present:
            parsed = []
            for n in present:
                p = os.path.join(cur, n)
                try:
                    if os.stat(p).st_dev != dev0 and not allow_xdev:
                        parsed.append((n, 'xdev'))
                        continue
                    parsed.append((n, mtext.parse_file(p)))
                except FileNotFoundError:
                    continue
                except Exception as exc:
                    res.unconstrained = 'Manifest %s unreadable/invalid: %r' % (p, exc)
                    return res
            rel = '/'.join(reversed(rel_parts))
            if symlinked:
                # the walk goes up through the link's target while the start path
                # is known by the link's name: which of the two an IGNORE is matched
                # against is not defined by the statement
                k = len(rel_parts)
                lex = os.path.normpath(os.path.abspath(start)).split('/')
                rel_lex = '/'.join(lex[-k:]) if k else ''
                if any(_ignores(ents, rel) != _ignores(ents, rel_lex)
                       for n, ents in parsed if ents != 'xdev'):
                    res.unconstrained = ('start reached through a symlink: an IGNORE '
                                         'matches its name but not its target (or the '
                                         'other way round)')
                    return res
            if parsed:
                first = parsed[0]
                if first[1] == 'xdev':
                    break
                verdicts = {(_ignores(ents, rel)) for n, ents in parsed
                            if ents != 'xdev'}
                if len(verdicts) > 1:
                    res.unconstrained = ('several Manifest files at one level '
                                         'disagree about ignoring the start path')
                    return res
                if verdicts == {True}:
                    break
                # plain and compressed at the same level: either name is fine
                last = {os.path.join(cur, n) for n, ents in parsed if ents != 'xdev'}
        parent = os.path.dirname(cur)
        if parent == cur:
            break
        rel_parts.append(os.path.basename(cur))
        cur = parent
    res.answers = last
    return res
