"""Independent Manifest text writer / reader / hashing (GLEP 74).

Shares no code with gemato.  Entries are plain dicts:
  {'tag': 'DATA', 'path': 'a/b', 'size': 3, 'sums': {'SHA256': '..'}}
  {'tag': 'IGNORE', 'path': 'x'}     {'tag': 'TIMESTAMP', 'ts': '2020-01-01T00:00:00Z'}
For AUX entries 'path' is the path as written in the file (without the implicit
files/ prefix); use full_path() for the path relative to the Manifest directory.
"""
import bz2
import gzip
import hashlib
import lzma
import os
import re

FILE_TAGS = ('MANIFEST', 'DATA', 'MISC', 'EBUILD', 'AUX')
ALL_TAGS = FILE_TAGS + ('DIST', 'IGNORE', 'TIMESTAMP')

# GLEP 74 hash names -> hashlib constructor names
GLEP_HASHES = {
    'MD5': 'md5', 'SHA1': 'sha1', 'SHA256': 'sha256', 'SHA512': 'sha512',
    'RMD160': 'ripemd160', 'WHIRLPOOL': 'whirlpool', 'BLAKE2B': 'blake2b',
    'BLAKE2S': 'blake2s', 'SHA3_256': 'sha3_256', 'SHA3_512': 'sha3_512',
}


def supported_hashes():
    return [k for k, v in GLEP_HASHES.items()
            if v in hashlib.algorithms_available]


def digest(name, data):
    """Digest of @data under GLEP name @name; None if unknown/unsupported."""
    hn = GLEP_HASHES.get(name)
    if hn is None or hn not in hashlib.algorithms_available:
        return None
    return hashlib.new(hn, data).hexdigest()


def digests(names, data):
    return {n: digest(n, data) for n in names}


# ------------------------------------------------------------------ writer

def _must_escape(ch):
    o = ord(ch)
    return (o <= 0x20 or 0x7f <= o <= 0xa0 or ch == '\\' or ch.isspace())


def esc_path(p):
    out = []
    for ch in p:
        if _must_escape(ch):
            o = ord(ch)
            if o <= 0x7f:
                out.append('\\x%02X' % o)
            elif o <= 0xffff:
                out.append('\\u%04X' % o)
            else:
                out.append('\\U%08X' % o)
        else:
            out.append(ch)
    return ''.join(out)


def entry_line(e):
    t = e['tag']
    if t == 'TIMESTAMP':
        return 'TIMESTAMP %s' % e['ts']
    if t == 'IGNORE':
        return 'IGNORE %s' % esc_path(e['path'])
    parts = [t, esc_path(e['path']), str(e['size'])]
    # (checksum fields may come in any order on a line; '_sum_order' lets a
    # generator write them in another one than the alphabetical default)
    order = e.get('_sum_order') or sorted(e['sums'])
    for k in order:
        if k in e['sums']:
            parts += [k, e['sums'][k]]
    for k in sorted(e['sums']):
        if k not in order:
            parts += [k, e['sums'][k]]
    return ' '.join(parts)


def render(entries):
    return ''.join(entry_line(e) + '\n' for e in entries)


def file_entry(tag, path, data, hashes):
    return {'tag': tag, 'path': path, 'size': len(data),
            'sums': digests(hashes, data)}


def compress(fmt, data):
    """Every other content (by its hash) is compressed with settings that differ
    from what gemato itself writes - another tool's or an older release's output:
    the same content gives other bytes, often of the same length."""
    if fmt in (None, '', 'plain'):
        return data
    alt = bool(hashlib.sha1(data).digest()[0] & 1)
    if fmt == 'gz':
        return gzip.compress(data, mtime=1234567890 if alt else 0)
    if fmt == 'bz2':
        return bz2.compress(data, 1 if alt else 9)
    if fmt == 'lzma':
        if alt:
            return lzma.compress(data, format=lzma.FORMAT_ALONE, preset=1)
        return lzma.compress(data, format=lzma.FORMAT_ALONE)
    if fmt == 'xz':
        if alt:
            return lzma.compress(data, format=lzma.FORMAT_XZ, preset=1,
                                 check=lzma.CHECK_CRC32)
        return lzma.compress(data, format=lzma.FORMAT_XZ)
    raise ValueError(fmt)


SUFFIXES = ('gz', 'bz2', 'lzma', 'xz')


def suffix_of(name):
    for s in SUFFIXES:
        if name.endswith('.' + s):
            return s
    return None


def decompress_named(name, data):
    s = suffix_of(name)
    if s is None:
        return data
    if s == 'gz':
        return gzip.decompress(data)
    if s == 'bz2':
        return bz2.decompress(data)
    if s == 'lzma':
        return lzma.decompress(data, format=lzma.FORMAT_ALONE)
    return lzma.decompress(data, format=lzma.FORMAT_XZ)


# ------------------------------------------------------------------ reader

class ReadError(Exception):
    pass


_ESC = re.compile(r'\\(x[0-9a-fA-F]{2}|u[0-9a-fA-F]{4}|U[0-9a-fA-F]{8})')


def unesc_path(s):
    out = []
    i = 0
    n = len(s)
    while i < n:
        ch = s[i]
        if ch != '\\':
            out.append(ch)
            i += 1
            continue
        m = _ESC.match(s, i)
        if not m:
            raise ReadError('bad escape in %r' % s)
        v = int(m.group(1)[1:], 16)
        if v > 0x10ffff:
            raise ReadError('escape out of range in %r' % s)
        out.append(chr(v))
        i = m.end()
    return ''.join(out)


def parse_line(line):
    f = line.split()
    if not f:
        return None
    t = f[0]
    if t == 'TIMESTAMP':
        if len(f) != 2:
            raise ReadError('TIMESTAMP fields')
        return {'tag': t, 'ts': f[1]}
    if t == 'IGNORE':
        if len(f) != 2:
            raise ReadError('IGNORE fields')
        return {'tag': t, 'path': unesc_path(f[1])}
    if t in FILE_TAGS or t == 'DIST':
        if len(f) < 3 or (len(f) - 3) % 2:
            raise ReadError('field count: %r' % line)
        if not re.fullmatch(r'[0-9]+', f[2]):
            raise ReadError('size: %r' % line)
        sums = {}
        for i in range(3, len(f), 2):
            sums[f[i]] = f[i + 1]
        return {'tag': t, 'path': unesc_path(f[1]), 'size': int(f[2]),
                'sums': sums}
    raise ReadError('unknown tag %r' % t)


def strip_signature(text):
    """If @text is a cleartext-signed message return (True, body-text with
    dash-escapes removed); else (False, text).  Deliberately simple: used only
    on output that gemato/gpg themselves produced."""
    lines = text.split('\n')
    if not lines or lines[0] != '-----BEGIN PGP SIGNED MESSAGE-----':
        return False, text
    i = 1
    while i < len(lines) and lines[i].strip():
        i += 1
    i += 1
    body = []
    while i < len(lines) and lines[i] != '-----BEGIN PGP SIGNATURE-----':
        ln = lines[i]
        if ln.startswith('- '):
            ln = ln[2:]
        body.append(ln)
        i += 1
    if i >= len(lines):
        raise ReadError('signed message without signature')
    return True, '\n'.join(body) + '\n'


def parse(text):
    signed, body = strip_signature(text)
    out = []
    for line in body.split('\n'):
        e = parse_line(line)
        if e is not None:
            out.append(e)
    return out


def parse_file(path):
    with open(path, 'rb') as f:
        raw = f.read()
    data = decompress_named(os.path.basename(path), raw)
    return parse(data.decode('utf8'))


def full_path(mdir, e):
    """Path of the object an entry names, relative to the tree root."""
    p = e['path']
    if e['tag'] == 'AUX':
        p = 'files/' + p
    return p if not mdir else mdir + '/' + p


def comp_prefix(path, prefix):
    """Whole-component prefix test on normalised relative paths."""
    if prefix == '':
        return True
    a = path.split('/')
    b = prefix.split('/')
    return a[:len(b)] == b
