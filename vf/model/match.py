"""Independent statement of "does this tree match its Manifests" (C01 et al.).

match(root, top_name, sub, last_mtime) reads the Manifest chain from the top
with the independent reader, re-hashes with one-shot hashlib and walks the tree
with os.scandir.  It shares no code with gemato.

Result fields
  required   {path: kind}  paths that offend by the statement
  optional   {path: kind}  paths about which the statement is silent
  chain      (manifest path, why) if a sub-Manifest does not match its parent
  incompatible  [(path, why)] conflicting duplicate entries
  unconstrained [reason]   the verdict as a whole is not fixed by the statement
  entries    {path: merged entry}   files  (paths found by the walk)
"""
import os
import stat

from vf.model import mtext

HIDDEN = '.'


class Result:
    def __init__(self):
        self.required = {}
        self.optional = {}
        self.chain = None
        self.incompatible = []
        self.unconstrained = []
        self.enotdir = set()
        self.entries = {}
        self.ignores = set()
        self.manifests = {}      # mpath -> list of entries
        self.walked_dirs = []
        self.files = []
        self.errors = []
        self.has_unsupported = False

    @property
    def must_reject(self):
        return bool(self.required or self.chain or self.incompatible)

    @property
    def must_accept(self):
        return not (self.required or self.optional or self.chain
                    or self.incompatible or self.unconstrained or self.errors)

    def summary(self):
        return {'required': dict(self.required), 'optional': dict(self.optional),
                'chain': self.chain, 'incompatible': self.incompatible,
                'unconstrained': self.unconstrained, 'errors': self.errors}


def normalised(p):
    return p != '' and not p.startswith('/') and \
        all(c not in ('', '.', '..') for c in p.split('/'))


def read_manifest(root, mpath):
    with open(os.path.join(root, mpath), 'rb') as f:
        raw = f.read()
    data = mtext.decompress_named(os.path.basename(mpath), raw)
    return mtext.parse(data.decode('utf8')), raw


def check_file(root, path, size, sums, last_mtime=None):
    """-> None if the file matches, else (kind, optional?)."""
    full = os.path.join(root, path)
    # a leading component that is not a directory
    parts = path.split('/')
    cur = root
    for comp in parts[:-1]:
        cur = os.path.join(cur, comp)
        try:
            st = os.stat(cur)
        except FileNotFoundError:
            return ('missing', False)
        except NotADirectoryError:
            return ('enotdir', False)
        except OSError as exc:
            return ('oserror:%s' % exc.errno, False)
        if not stat.S_ISDIR(st.st_mode):
            return ('enotdir', False)
    try:
        st = os.stat(full)
    except FileNotFoundError:
        return ('missing', False)
    except NotADirectoryError:
        return ('enotdir', False)
    except OSError as exc:
        return ('oserror:%s' % exc.errno, False)
    if not stat.S_ISREG(st.st_mode):
        return ('type', False)
    if st.st_size != size:
        return ('size', False)
    skip_ok = (last_mtime is not None and st.st_mtime <= last_mtime
               and st.st_size != 0)
    with open(full, 'rb') as f:
        data = f.read()
    if len(data) != size:
        return ('size', False)
    for h in sorted(sums):
        d = mtext.digest(h, data)
        if d is None:
            return ('unsupported-hash:' + h, skip_ok)
        if d != sums[h]:
            return ('digest:' + h, skip_ok)
    return None


def load_chain(root, top_name, sub, res):
    """Load the top-level Manifest and every sub-Manifest relevant for @sub that
    is reachable through MANIFEST entries matching the file on disk."""
    try:
        ents, raw = read_manifest(root, top_name)
    except Exception as exc:
        res.errors.append('top-level Manifest unreadable: %r' % (exc,))
        return
    res.manifests[top_name] = ents
    progress = True
    while progress:
        progress = False
        for mpath in list(res.manifests):
            mdir = os.path.dirname(mpath)
            for e in res.manifests[mpath]:
                if e['tag'] != 'MANIFEST':
                    continue
                sp = mtext.full_path(mdir, e)
                if not normalised(sp):
                    res.unconstrained.append('unnormalised MANIFEST path (U10)')
                    continue
                if sp in res.manifests or sp == mpath:
                    continue
                sdir = os.path.dirname(sp)
                if not (mtext.comp_prefix(sub, sdir) or mtext.comp_prefix(sdir, sub)):
                    continue
                bad = check_file(root, sp, e['size'], e['sums'])
                if bad is not None:
                    if res.chain is None:
                        res.chain = (sp, bad[0])
                    continue
                try:
                    sents, raw = read_manifest(root, sp)
                except Exception as exc:
                    res.errors.append('sub-Manifest %s matches its entry but cannot '
                                      'be read: %r' % (sp, exc))
                    continue
                res.manifests[sp] = sents
                progress = True


def conflict(a, b):
    """Why two file entries for one path conflict, or None."""
    if a['size'] != b['size']:
        return 'size'
    for h in set(a['sums']) & set(b['sums']):
        if a['sums'][h] != b['sums'][h]:
            return 'digest:' + h
    return None


COMPAT_TAGS = ('MANIFEST', 'DATA', 'EBUILD', 'AUX')


def match(root, top_name='Manifest', sub='', last_mtime=None):
    res = Result()
    load_chain(root, top_name, sub, res)
    if res.errors:
        return res
    by_path = {}
    for mpath, ents in res.manifests.items():
        mdir = os.path.dirname(mpath)
        for e in ents:
            if e['tag'] in ('DIST', 'TIMESTAMP'):
                continue
            full = mtext.full_path(mdir, e)
            if not normalised(full):
                res.unconstrained.append('unnormalised entry path (U10)')
                continue
            if e['tag'] == 'IGNORE' and sub and mtext.comp_prefix(sub, full):
                res.unconstrained.append('verified sub-path is IGNOREd')
            if not mtext.comp_prefix(full, sub):
                continue
            if e['tag'] == 'IGNORE':
                res.ignores.add(full)
            else:
                by_path.setdefault(full, []).append(e)
    merged = {}
    for path, ents in by_path.items():
        if path in res.ignores:
            res.unconstrained.append('IGNORE and file entry for one path (U2)')
        tags = {e['tag'] for e in ents}
        if len(tags) > 1 and not tags <= set(COMPAT_TAGS):
            res.unconstrained.append('duplicate entries mixing MISC with other '
                                     'tags')
        acc = {'size': ents[0]['size'], 'sums': dict(ents[0]['sums']),
               'tag': ents[0]['tag']}
        for e in ents[1:]:
            why = conflict(acc, e)
            if why:
                res.incompatible.append((path, why))
                break
            acc['sums'].update(e['sums'])
        merged[path] = acc
        if any(mtext.digest(h, b'') is None for h in acc['sums']):
            res.has_unsupported = True
    res.entries = merged

    def ignored_above(path):
        parts = path.split('/')
        for i in range(1, len(parts)):
            if '/'.join(parts[:i]) in res.ignores:
                return True
        return False

    for path, e in merged.items():
        bad = check_file(root, path, e['size'], e['sums'], last_mtime)
        if bad is None:
            continue
        kind, optional = bad
        if path in res.ignores or ignored_above(path):
            res.optional[path] = kind + ' (beneath IGNORE, U1)'
            res.unconstrained.append('offending entry beneath an IGNOREd path (U1)')
            continue
        if kind == 'enotdir':
            res.enotdir.add(path)
        if optional:
            res.optional[path] = kind + ' (may be skipped by last_mtime, U4)'
        else:
            res.required[path] = kind

    # ---- walk
    start = os.path.join(root, sub) if sub else root

    def walk(absdir, rel, stack):
        try:
            st = os.stat(absdir)
        except OSError as exc:
            res.errors.append('cannot stat %s: %r' % (rel, exc))
            return
        key = (st.st_dev, st.st_ino)
        if key in stack:
            res.unconstrained.append('directory symlink loop at %s (C16)' % rel)
            return
        res.walked_dirs.append(rel)
        try:
            names = sorted(os.listdir(absdir))
        except OSError as exc:
            res.errors.append('cannot list %s: %r' % (rel, exc))
            return
        for name in names:
            if name.startswith(HIDDEN):
                continue
            p = name if not rel else rel + '/' + name
            ap = os.path.join(absdir, name)
            try:
                stt = os.stat(ap)
                isdir = stat.S_ISDIR(stt.st_mode)
                dangling = False
            except FileNotFoundError:
                isdir = False
                dangling = True
            except OSError as exc:
                res.errors.append('cannot stat %s: %r' % (p, exc))
                continue
            if isdir:
                if p in res.ignores:
                    continue
                if p in merged:
                    # a directory stands where a file is listed: the entry check
                    # reported it; what is inside is not walked by the verifier
                    collect_optional(ap, p)
                    continue
                walk(ap, p, stack + [key])
            else:
                if p in res.ignores:
                    continue
                if rel == '' and sub == '' and name == top_name:
                    continue
                res.files.append(p)
                if p in merged:
                    continue
                if dangling:
                    res.optional[p] = 'stray dangling symlink (U3)'
                    res.unconstrained.append('dangling symlink without entry (U3)')
                else:
                    res.required[p] = 'stray'

    def collect_optional(absdir, rel):
        for dp, dn, fn in os.walk(absdir):
            for f in fn:
                q = os.path.relpath(os.path.join(dp, f), root)
                if q not in merged:
                    res.optional[q] = 'stray inside a directory listed as a file'

    if os.path.isdir(start):
        walk(start, sub, [])
    else:
        res.unconstrained.append('verified sub-path is not a directory')
    return res


# ------------------------------------------------------------------ lookups

def find_path_entry(res_manifests, path):
    """Most specific (deepest Manifest directory first) entry for @path among the
    loaded Manifests: (kind, entry) with kind in {'ignore', 'file', None}."""
    order = sorted(res_manifests, key=lambda m: len(os.path.dirname(m)),
                   reverse=True)
    for mpath in order:
        mdir = os.path.dirname(mpath)
        if not mtext.comp_prefix(path, mdir):
            continue
        for e in res_manifests[mpath]:
            if e['tag'] in ('DIST', 'TIMESTAMP'):
                continue
            full = mtext.full_path(mdir, e)
            if e['tag'] == 'IGNORE':
                if mtext.comp_prefix(path, full):
                    return 'ignore', e
            elif full == path:
                return 'file', e
    return None, None
