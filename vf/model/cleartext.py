"""Independent recogniser of the OpenPGP cleartext-signature framing (RFC 4880
section 7) as far as C04 needs it:

    blank* BEGIN-SIGNED hdr* <blank> body* BEGIN-SIGNATURE armor* END-SIGNATURE blank*

Input: list of physical lines *without* their newline, plus a flag saying
whether the last line was terminated.  Output: a Verdict describing what a
correct loader may do.  Written from the statement of C04, not from gemato.
"""
import re

BEGIN = '-----BEGIN PGP SIGNED MESSAGE-----'
SIGBEGIN = '-----BEGIN PGP SIGNATURE-----'
SIGEND = '-----END PGP SIGNATURE-----'

SYNTAX = 'ManifestSyntaxError'
UNSIGNED = 'ManifestUnsignedData'


def is_blank(ln):
    return ln.strip() == ''


def is_armor_like(ln):
    return ln.startswith('-----') and ln.rstrip().endswith('-----')


class Verdict:
    def __init__(self):
        self.errors = set()       # exception names a correct loader may raise
        self.must_fail = False    # at least one error condition certainly applies
        self.may_accept = True    # acceptance (with the data below) is allowed
        self.signed = False
        self.body = []            # dash-unescaped cleartext lines to parse as entries
        self.signed_text = None   # exact text BEGIN..END (with newlines)
        self.trace = []           # (section, line) pairs of the reference walk
        self.notes = []


def analyse(lines, final_newline=True, entry_ok=None):
    """@entry_ok(line) -> True if the (dash-unescaped) line is a valid entry or
    blank.  Lines that are not make the loader raise a syntax error."""
    v = Verdict()

    def err(kind, certain=True):
        v.errors.add(kind)
        if certain:
            v.must_fail = True
            v.may_accept = False

    n = len(lines)
    i = 0
    while i < n and is_blank(lines[i]):
        v.trace.append(('pre', lines[i]))
        i += 1
    if i < n and lines[i] == BEGIN and not (i == n - 1 and not final_newline):
        v.signed = True
        start = i
        v.trace.append(('begin', lines[i]))
        i += 1
        # armor headers up to the first blank line
        while i < n and not is_blank(lines[i]):
            v.trace.append(('hdr', lines[i]))
            if is_armor_like(lines[i]):
                # armor inside the header section: "misplaced"?  The statement is
                # not explicit (U13): rejecting with a syntax error and skipping it
                # as a header are both allowed.
                v.errors.add(SYNTAX)
                v.notes.append('armor-like line in header section (U13)')
            i += 1
        if i >= n:
            err(SYNTAX)
            v.notes.append('truncated in headers')
            return v
        v.trace.append(('sep', lines[i]))
        i += 1
        # body
        while i < n and lines[i] != SIGBEGIN:
            ln = lines[i]
            v.trace.append(('body', ln))
            if ln.startswith('- '):
                ln = ln[2:]
            if is_armor_like(ln):
                err(SYNTAX)
                v.notes.append('armor in body')
            elif entry_ok is not None and not entry_ok(ln):
                err(SYNTAX)
                v.notes.append('invalid entry in body')
            else:
                v.body.append(ln)
            i += 1
        if i >= n or (i == n - 1 and not final_newline):
            err(SYNTAX)
            v.notes.append('truncated before signature')
            return v
        v.trace.append(('sigbegin', lines[i]))
        i += 1
        while i < n and lines[i] != SIGEND:
            v.trace.append(('sig', lines[i]))
            if is_armor_like(lines[i]):
                err(SYNTAX)
                v.notes.append('armor in signature')
            i += 1
        if i >= n:
            err(SYNTAX)
            v.notes.append('truncated in signature')
            return v
        if i == n - 1 and not final_newline:
            # END line not newline-terminated: accepting it properly or calling it
            # truncated armor are both fine
            v.errors.add(SYNTAX)
            v.notes.append('END without newline (either)')
        v.trace.append(('sigend', lines[i]))
        end = i
        v.signed_text = ''.join(ln + '\n' for ln in lines[start:end + 1])
        if i == n - 1 and not final_newline:
            v.signed_text = v.signed_text[:-1]
        i += 1
        while i < n:
            ln = lines[i]
            v.trace.append(('post', ln))
            if is_blank(ln):
                pass
            elif is_armor_like(ln):
                err(UNSIGNED)
                v.errors.add(SYNTAX)
            else:
                err(UNSIGNED)
                if entry_ok is not None and not entry_ok(ln):
                    v.errors.add(SYNTAX)
            i += 1
        return v
    # ---- unsigned Manifest
    seen_entry = False
    while i < n:
        ln = lines[i]
        v.trace.append(('data', ln))
        if ln == BEGIN and not (i == n - 1 and not final_newline):
            # a signed block after other content: that content is unsigned
            err(UNSIGNED if seen_entry else SYNTAX)
            v.errors.add(SYNTAX)
            v.errors.add(UNSIGNED)
            v.notes.append('BEGIN after data')
        elif is_armor_like(ln):
            err(SYNTAX)
        elif is_blank(ln):
            pass
        elif entry_ok is not None and not entry_ok(ln):
            err(SYNTAX)
        else:
            v.body.append(ln)
            seen_entry = True
        i += 1
    return v
