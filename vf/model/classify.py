"""Three-valued classifier of Manifest lines for C09, written from the property
statement (not from gemato): MUST_ACCEPT (with the decoded entry), MUST_REJECT
(with the reason) or EITHER (statement silent: zones U5/U6 and friends).
"""
import re

from vf.model import mtext

ACCEPT, REJECT, EITHER = 'accept', 'reject', 'either'

TAGS = set(mtext.ALL_TAGS)
_DAYS = [31, 29, 31, 30, 31, 30, 31, 31, 30, 31, 30, 31]
_HEX = '0123456789abcdefABCDEF'


def _is_leap(y):
    return y % 4 == 0 and (y % 100 != 0 or y % 400 == 0)


def classify_ts(tok):
    m = re.fullmatch(r'(\d+)-(\d+)-(\d+)T(\d+):(\d+):(\d+)Z', tok)
    if not m:
        if re.fullmatch(r'(\d+)-(\d+)-(\d+)[Tt](\d+):(\d+):(\d+)[Zz]', tok):
            # RFC 3339 5.6: "T" and "Z" may alternatively be lower case
            return EITHER, 'lower-case T/Z in timestamp'
        return REJECT, 'malformed timestamp'
    if not tok.isascii():
        return EITHER, 'non-ascii digits in timestamp'
    y, mo, d, h, mi, s = (int(x) for x in m.groups())
    widths = [len(x) for x in m.groups()]
    if not (1 <= mo <= 12) or h > 23 or mi > 59 or s > 61 or d < 1:
        return REJECT, 'timestamp field out of range'
    dmax = _DAYS[mo - 1]
    if mo == 2 and not _is_leap(y):
        dmax = 28
    if d > dmax:
        return REJECT, 'timestamp day out of range'
    if widths[0] > 4 or any(w > 2 for w in widths[1:]):
        return REJECT, 'timestamp field too wide'
    if s >= 60 or y == 0:
        return EITHER, 'leap second / year 0'
    if widths != [4, 2, 2, 2, 2, 2]:
        return EITHER, 'non-padded timestamp'
    return ACCEPT, tok


def decode_path(tok):
    """-> (verdict, decoded-or-reason)."""
    out = []
    i, n = 0, len(tok)
    either = None
    while i < n:
        ch = tok[i]
        if ch != '\\':
            out.append(ch)
            i += 1
            continue
        if i + 1 >= n:
            return REJECT, 'invalid escape'
        k = tok[i + 1]
        w = {'x': 2, 'u': 4, 'U': 8}.get(k)
        if w is None:
            return REJECT, 'invalid escape'
        digs = tok[i + 2:i + 2 + w]
        if len(digs) != w or any(c not in _HEX for c in digs):
            return REJECT, 'invalid escape'
        v = int(digs, 16)
        if v > 0x10ffff:
            return REJECT, 'out-of-range escape'
        if 0xd800 <= v <= 0xdfff:
            either = 'surrogate escape (U6)'
        out.append(chr(v))
        i += 2 + w
    if any(0xd800 <= ord(c) <= 0xdfff for c in out) and either is None:
        either = 'raw surrogate'
    p = ''.join(out)
    if p == '':
        return REJECT, 'empty path'
    if p[0] == '/':
        return REJECT, 'absolute path'
    if either:
        return EITHER, either
    return ACCEPT, p


def classify_size(tok):
    if re.fullmatch(r'[0-9]+', tok) and tok.isascii():
        if len(tok) > 4000:
            # beyond the interpreter's int <-> str conversion limit: a reader may
            # refuse it (as a syntax error), nothing else (U5)
            return EITHER, 'size with more than 4000 digits (U5)'
        return ACCEPT, int(tok)
    # what Python's int() would additionally take (U5)
    if re.fullmatch(r'-[0-9]*[1-9][0-9]*', tok) and tok.isascii():
        return REJECT, 'negative size'
    try:
        int(tok)
    except ValueError:
        return REJECT, 'non-numeric size'
    return EITHER, 'exotic integer syntax (U5)'


def classify_line(line):
    """@line without the trailing newline.  Returns (verdict, info):
    ACCEPT -> entry dict or None for a blank line; REJECT/EITHER -> reason."""
    for ch in line:
        if ch.isspace() and ch not in ' \t':
            return EITHER, 'exotic whitespace in line'
    if '\x00' in line:
        return EITHER, 'raw NUL in line'
    toks = [t for t in re.split(r'[ \t]+', line) if t]
    if not toks:
        return ACCEPT, None
    if line.startswith('-----'):
        return EITHER, 'armor-like line (C04 territory)'
    tag = toks[0]
    if tag not in TAGS:
        return REJECT, 'unknown tag'
    if tag == 'TIMESTAMP':
        if len(toks) != 2:
            return REJECT, 'wrong field count'
        v, info = classify_ts(toks[1])
        if v == ACCEPT:
            return ACCEPT, {'tag': tag, 'ts': info}
        return v, info
    if tag == 'IGNORE':
        if len(toks) != 2:
            return REJECT, 'wrong field count'
        v, info = decode_path(toks[1])
        if v == ACCEPT:
            return ACCEPT, {'tag': tag, 'path': info}
        return v, info
    # file-like entries
    if len(toks) < 3:
        return REJECT, 'wrong field count'
    verdicts = []
    pv, pinfo = decode_path(toks[1])
    verdicts.append((pv, pinfo))
    if pv == ACCEPT and tag == 'DIST' and '/' in pinfo:
        verdicts.append((REJECT, 'DIST name with slash'))
    sv, sinfo = classify_size(toks[2])
    verdicts.append((sv, sinfo))
    if (len(toks) - 3) % 2:
        verdicts.append((REJECT, 'checksum name without value'))
    for v, info in verdicts:
        if v == REJECT:
            return REJECT, info
    for v, info in verdicts:
        if v == EITHER:
            return EITHER, info
    sums = {}
    dup = False
    for i in range(3, len(toks), 2):
        if toks[i] in sums:
            dup = True
        sums[toks[i]] = toks[i + 1]
    path = pinfo
    e = {'tag': tag, 'path': path, 'size': sinfo, 'sums': sums}
    if dup:
        e['dup_sums'] = True
    return ACCEPT, e


def classify_text(text):
    """-> (verdict, entries|reason, per-line reasons)."""
    lines = text.split('\n')
    if lines and lines[-1] == '':
        lines.pop()
    entries = []
    verdict = ACCEPT
    reasons = []
    if any(ln.startswith('-----') for ln in lines):
        return EITHER, [], ['~armor-like line (C04 territory)']
    for ln in lines:
        v, info = classify_line(ln)
        if v == ACCEPT:
            if info is not None:
                entries.append(info)
        elif v == REJECT:
            reasons.append(info)
            verdict = REJECT
        else:
            reasons.append('~' + info)
            if verdict == ACCEPT:
                verdict = EITHER
    return verdict, entries, reasons
