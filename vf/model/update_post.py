"""Post-condition of `update + save` (C03), evaluated with the independent reader.

check(root, top_name, scope, hashes) -> list of (kind, path, detail) findings:
  uncovered / covered-twice / wrong-size / wrong-digest / wrong-hash-set /
  vanished-entry / manifest-unreferenced / manifest-entry-stale / unreadable-manifest
An empty list means the Manifest files describe the directory exactly.
"""
import os
import stat

from vf.model import match as mmatch
from vf.model import mtext


def reachable_manifests(root, top_name):
    """{mpath: entries} following MANIFEST entries from the top, whether or not
    the files match (staleness is reported separately)."""
    out, problems = {}, []
    todo = [top_name]
    while todo:
        mp = todo.pop()
        if mp in out:
            continue
        try:
            ents, raw = mmatch.read_manifest(root, mp)
        except Exception as exc:
            problems.append(('unreadable-manifest', mp, repr(exc)))
            continue
        out[mp] = ents
        mdir = os.path.dirname(mp)
        for e in ents:
            if e['tag'] == 'MANIFEST':
                sp = mtext.full_path(mdir, e)
                if mmatch.normalised(sp) and sp not in out:
                    todo.append(sp)
    return out, problems


def check(root, top_name, scope, hashes):
    findings = []
    mans, problems = reachable_manifests(root, top_name)
    findings.extend(problems)
    ignores = set()
    by_path = {}
    for mp, ents in mans.items():
        mdir = os.path.dirname(mp)
        for e in ents:
            if e['tag'] in ('DIST', 'TIMESTAMP'):
                continue
            full = mtext.full_path(mdir, e)
            if e['tag'] == 'IGNORE':
                ignores.add(full)
            else:
                by_path.setdefault(full, []).append((mp, e))

    def ignored(p):
        parts = p.split('/')
        return any('/'.join(parts[:i]) in ignores for i in range(1, len(parts) + 1))

    # ---- walk the scope
    seen = []
    start = os.path.join(root, scope) if scope else root

    def walk(absd, rel, stack):
        st = os.stat(absd)
        key = (st.st_dev, st.st_ino)
        if key in stack:
            return
        for name in sorted(os.listdir(absd)):
            if name.startswith('.'):
                continue
            p = name if not rel else rel + '/' + name
            if p in ignores:
                continue
            ap = os.path.join(absd, name)
            try:
                stt = os.stat(ap)
            except OSError:
                continue
            if stat.S_ISDIR(stt.st_mode):
                if p in by_path:
                    continue
                walk(ap, p, stack + [key])
            elif stat.S_ISREG(stt.st_mode):
                if rel == '' and name == top_name:
                    continue
                seen.append(p)
    if os.path.isdir(start):
        walk(start, scope, [])
    want = set(hashes)
    for p in seen:
        ents = by_path.get(p, [])
        if not ents:
            findings.append(('uncovered', p, None))
            continue
        if len(ents) > 1:
            findings.append(('covered-twice', p, [m for m, e in ents]))
        with open(os.path.join(root, p), 'rb') as f:
            data = f.read()
        for mp, e in ents:
            if e['size'] != len(data):
                findings.append(('wrong-size', p, (e['size'], len(data))))
            if set(e['sums']) != want:
                findings.append(('wrong-hash-set', p, sorted(e['sums'])))
            for h, v in e['sums'].items():
                d = mtext.digest(h, data)
                if d is not None and d != v:
                    findings.append(('wrong-digest', p, h))
    # ---- vanished
    for p, ents in by_path.items():
        if not mtext.comp_prefix(p, scope):
            continue
        if ignored(p):
            continue
        if not os.path.exists(os.path.join(root, p)):
            findings.append(('vanished-entry', p, [m for m, e in ents]))
    # ---- every Manifest in use (in scope or on the chain above it) referenced
    for mp in mans:
        if mp == top_name:
            continue
        mdir = os.path.dirname(mp)
        if not (mtext.comp_prefix(mdir, scope) or mtext.comp_prefix(scope, mdir)):
            continue
        refs = [e for m2, e in by_path.get(mp, []) if e['tag'] == 'MANIFEST']
        if not refs:
            findings.append(('manifest-unreferenced', mp, None))
            continue
        for e in refs:
            bad = mmatch.check_file(root, mp, e['size'], e['sums'])
            if bad is not None:
                findings.append(('manifest-entry-stale', mp, bad[0]))
    return findings


def manifest_files_on_disk(root):
    """Every file whose name is Manifest or Manifest.<suffix> (candidates for
    'Manifest file in use')."""
    out = []
    names = ['Manifest'] + ['Manifest.' + s for s in mtext.SUFFIXES]
    for dp, dn, fn in os.walk(root):
        for f in fn:
            if f in names:
                out.append(os.path.relpath(os.path.join(dp, f), root))
    return sorted(out)
