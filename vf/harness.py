"""Sharding, verdicts, evidence and replay files.

Parent side:  run_check(mod, tier, seed)  -> exit code 0 / 1 / 2
Worker side:  Ctx, worker_main()

Verdicts are three-valued: 0 held on everything explored (KNOWN-FINDING lines
allowed), 1 violation not listed in known-findings.txt, 2 inconclusive (a shard
crashed / timed out, a deciding monitor was never reached, the oracle
contradicted the generator's own bookkeeping).
"""
import collections
import concurrent.futures
import importlib
import json
import os
import re
import subprocess
import sys
import time
import traceback

from vf import common

MAX_REPLAYS_PER_KEY = 3
MAX_SAMPLES = 5
MAX_VIOLATIONS_PER_SHARD = 300


class StopShard(BaseException):
    pass


# ------------------------------------------------------------------ worker

class Ctx:
    def __init__(self, check_id, tier, seed):
        self.check_id = check_id
        self.tier = tier
        self.seed = seed
        self.counters = collections.Counter()
        self.case_hashes = set()        # distinct non-trivial cases
        self.signatures = set()         # distinct abstract signatures
        self.enumerated = 0             # cases distinct by construction
        self.violations = []
        self.samples = {}
        self.notes = collections.Counter()
        self.extra = {}

    # -- bookkeeping -------------------------------------------------------
    def count(self, name, n=1):
        self.counters[name] += n

    def case(self, sig=None, nontrivial=True, case=None, klass=None,
             enumerated=False):
        """One evaluated case.  @sig abstract signature, @case its full
        description (hashed for distinctness), @enumerated: distinct by
        construction (exhaustive enumerations), no hashing needed."""
        self.counters['evaluations'] += 1
        if klass is not None:
            self.counters['class:' + klass] += 1
        if not nontrivial:
            self.counters['trivial'] += 1
            return
        if enumerated:
            self.enumerated += 1
        elif case is not None:
            self.case_hashes.add(common.case_hash(case))
        elif sig is not None:
            self.case_hashes.add(common.case_hash(sig))
        if sig is not None:
            self.signatures.add(sig if isinstance(sig, str)
                                else common.jdump(sig))

    def unconstrained(self, reason):
        self.counters['unconstrained'] += 1
        self.notes['unconstrained:' + reason] += 1

    def inconsistent(self, what, case=None):
        self.counters['model_inconsistent'] += 1
        if len(self.extra.setdefault('model_inconsistent_samples', [])) < 3:
            self.extra['model_inconsistent_samples'].append(
                {'what': what, 'case': case})

    def discarded(self, reason):
        self.counters['discarded'] += 1
        self.notes['discarded:' + reason] += 1

    def violation(self, key, what, case, detail=None):
        self.counters['violations'] += 1
        self.counters['violation:' + key] += 1
        n = sum(1 for v in self.violations if v['key'] == key)
        if n < MAX_REPLAYS_PER_KEY:
            self.violations.append({'key': key, 'what': what, 'case': case,
                                    'detail': detail})
        # a shard that has already seen plenty of violations has decided its
        # part of the verdict: stop instead of grinding through a broken tree
        if self.counters['violations'] >= MAX_VIOLATIONS_PER_SHARD:
            raise StopShard()

    def sample(self, obj, klass='default'):
        lst = self.samples.setdefault(klass, [])
        if len(lst) < 2:
            lst.append(obj)

    def dump(self):
        return {
            'counters': dict(self.counters),
            'case_hashes': sorted(self.case_hashes),
            'signatures': sorted(self.signatures),
            'enumerated': self.enumerated,
            'violations': self.violations,
            'samples': self.samples,
            'notes': dict(self.notes),
            'extra': self.extra,
        }


def load_check(check_id):
    return importlib.import_module('vf.checks.' + check_id.lower())


def worker_main(argv):
    check_id, tier, seed, units_file, out_file = argv
    seed = int(seed)
    mod = load_check(check_id)
    with open(units_file) as f:
        units = json.load(f)
    ctx = Ctx(check_id, tier, seed)
    callcount = None
    if getattr(mod, 'CALLCOUNT', True):
        from vf.mon import callcount as cc
        callcount = cc.CallCounter()
        callcount.start()
    status = 'ok'
    try:
        if hasattr(mod, 'setup_worker'):
            mod.setup_worker(ctx)
        for u in units:
            mod.run_unit(u, ctx)
        if hasattr(mod, 'finish_worker'):
            mod.finish_worker(ctx)
    except StopShard:
        ctx.counters['shards_stopped_early'] += 1
        try:
            if hasattr(mod, 'finish_worker'):
                mod.finish_worker(ctx)
        except Exception:
            pass
    except BaseException:
        status = 'crash'
        ctx.extra['crash'] = traceback.format_exc()
    if callcount is not None:
        callcount.stop()
        ctx.extra['calls'] = callcount.counts()
    d = ctx.dump()
    d['status'] = status
    tmp = out_file + '.tmp'
    with open(tmp, 'w') as f:
        json.dump(d, f, default=repr)
    os.replace(tmp, out_file)
    return 0 if status == 'ok' else 3


# ------------------------------------------------------------------ parent

def load_known():
    """known-findings.txt:  `known: property=<id> key=<key> :: <what>`  and
    `fixed: property=<id> <commit> <what>` (fixed entries suppress nothing)."""
    known = []
    path = os.path.join(common.VERIF_DIR, 'known-findings.txt')
    if not os.path.exists(path):
        return known
    with open(path) as f:
        for line in f:
            line = line.strip()
            m = re.match(r'known: property=(\S+) key=(\S+) :: (.*)$', line)
            if m:
                known.append({'property': m.group(1), 'key': m.group(2),
                              'what': m.group(3)})
    return known


def _run_chunk(check_id, tier, seed, idx, units, outdir, timeout, env):
    uf = os.path.join(outdir, 'units-%d.json' % idx)
    of = os.path.join(outdir, 'shard-%d.json' % idx)
    lf = os.path.join(outdir, 'shard-%d.log' % idx)
    with open(uf, 'w') as f:
        json.dump(units, f)
    if os.path.exists(of):
        os.unlink(of)
    t0 = time.time()
    try:
        with open(lf, 'wb') as log:
            r = subprocess.run(
                [common.PY] + (['-m', 'vf.worker'] if not os.environ.get('VF_WORKER_SCRIPT')
                               else [os.environ['VF_WORKER_SCRIPT']])
                + [check_id, tier, str(seed), uf, of],
                cwd=common.VERIF_DIR, env=env, stdout=log, stderr=log,
                stdin=subprocess.DEVNULL, timeout=timeout)
        rc = r.returncode
    except subprocess.TimeoutExpired:
        rc = 'timeout'
    res = None
    if os.path.exists(of):
        with open(of) as f:
            res = json.load(f)
    return idx, rc, res, time.time() - t0, lf


def worker_env(seed):
    env = dict(os.environ)
    env['PYTHONHASHSEED'] = '0'
    env['PYTHONPATH'] = common.VERIF_DIR
    env['VERIF_REPO'] = common.REPO
    env['VERIF_SEED'] = str(seed)
    env[common.GUARD] = '1'
    env.setdefault('TZ', 'UTC')
    env['PYTHONDONTWRITEBYTECODE'] = '1'
    # a user GNUPGHOME must never be needed by a check
    env.pop('GNUPGHOME', None)
    return env


def run_check(mod, tier, seed, jobs=None, only_units=None):
    check_id = mod.ID
    t0 = time.time()
    jobs = jobs or int(os.environ.get('VERIF_JOBS', '0')) or os.cpu_count() or 4
    outdir = os.path.join(common.VERIF_DIR, 'out', check_id)
    if os.environ.get('VERIF_REPO') and common.REPO != '/repo':
        # runs against a scratch copy (seeded change) keep their files apart from
        # those of a concurrent run against the repository itself
        outdir += '.scratch-copy'
    os.makedirs(outdir, exist_ok=True)
    for fn in os.listdir(outdir):
        if fn.startswith(('shard-', 'units-', 'replay-')):
            os.unlink(os.path.join(outdir, fn))

    units = mod.units(tier, seed)
    if only_units is not None:
        units = units[:only_units]
    nchunks = max(1, min(len(units), jobs * getattr(mod, 'CHUNKS_PER_JOB', 3)))
    chunks = [units[i::nchunks] for i in range(nchunks)]
    timeout = getattr(mod, 'TIMEOUT', {}).get(tier, 900 if tier == 'quick'
                                               else 7200)
    env = worker_env(seed)
    if hasattr(mod, 'prepare'):
        mod.prepare(tier, seed, env)

    results = []
    with concurrent.futures.ThreadPoolExecutor(max_workers=jobs) as ex:
        futs = [ex.submit(_run_chunk, check_id, tier, seed, i, ch, outdir,
                          timeout, env) for i, ch in enumerate(chunks)]
        for fu in concurrent.futures.as_completed(futs):
            results.append(fu.result())
    results.sort(key=lambda r: r[0])

    # ---- merge
    counters = collections.Counter()
    notes = collections.Counter()
    calls = collections.Counter()
    hashes, sigs = set(), set()
    enumerated = 0
    violations, samples = [], {}
    problems = []
    extra = {}
    for idx, rc, res, dt, lf in results:
        if res is None or rc != 0 or res.get('status') != 'ok':
            why = 'rc=%s' % (rc,)
            if res is not None and res.get('extra', {}).get('crash'):
                why += ' ' + res['extra']['crash'].strip().splitlines()[-1]
                extra.setdefault('crashes', []).append(res['extra']['crash'])
            problems.append('shard %d failed (%s), log %s' % (idx, why, lf))
        if res is None:
            continue
        counters.update(res['counters'])
        notes.update(res['notes'])
        calls.update(res.get('extra', {}).get('calls', {}))
        hashes.update(res['case_hashes'])
        sigs.update(res['signatures'])
        enumerated += res['enumerated']
        violations.extend(res['violations'])
        for k, v in res['samples'].items():
            lst = samples.setdefault(k, [])
            for s in v:
                if len(lst) < 2:
                    lst.append(s)
        for k, v in res.get('extra', {}).items():
            if k in ('calls', 'crash'):
                continue
            if isinstance(v, list):
                extra.setdefault(k, [])
                extra[k].extend(v[:max(0, 5 - len(extra[k]))])
            elif isinstance(v, dict):
                d = extra.setdefault(k, {})
                for kk, vv in v.items():
                    if isinstance(vv, (int, float)):
                        d[kk] = d.get(kk, 0) + vv
                    else:
                        d.setdefault(kk, vv)
            elif isinstance(v, (int, float)):
                extra[k] = extra.get(k, 0) + v

    # ---- verdict
    known = [k for k in load_known() if k['property'] == check_id]
    known_by_key = {k['key']: k for k in known}
    new_by_key = collections.OrderedDict()
    known_hit = collections.OrderedDict()
    for v in violations:
        if v['key'] in known_by_key:
            known_hit.setdefault(v['key'], v)
        else:
            new_by_key.setdefault(v['key'], []).append(v)

    lines = []
    for key, v in known_hit.items():
        lines.append('KNOWN-FINDING: property=%s %s [key=%s, %d case(s) this run]'
                     % (check_id, known_by_key[key]['what'], key,
                        counters.get('violation:' + key, 0)))
    n = 0
    for key, vs in new_by_key.items():
        for v in vs:
            n += 1
            rp = os.path.join(outdir, 'replay-%d.json' % n)
            with open(rp, 'w') as f:
                json.dump({'check': check_id, 'tier': tier, 'seed': seed,
                           'key': key, 'what': v['what'], 'case': v['case'],
                           'detail': v['detail']}, f, indent=1, default=repr)
            if v is vs[0]:
                lines.append('VIOLATION property=%s replay=%s' % (check_id, rp))
                lines.append('  key=%s: %s (%d case(s))' % (
                    key, v['what'], counters.get('violation:' + key, 0)))

    for name in getattr(mod, 'REQUIRED', []):
        val = counters.get(name, 0) + calls.get(name, 0) + \
            (extra.get(name, 0) if isinstance(extra.get(name), (int, float)) else 0)
        if not val:
            problems.append('deciding monitor/anchor %r was never reached' % name)
    if counters.get('model_inconsistent'):
        problems.append('%d case(s) where the oracle contradicted the '
                        'generator bookkeeping' % counters['model_inconsistent'])
    if counters.get('harness_error'):
        problems.append('%d harness error(s)' % counters['harness_error'])
    distinct = len(hashes) + enumerated
    if hasattr(mod, 'finalize'):
        problems.extend(mod.finalize(counters, extra, tier) or [])
    if distinct < 2 and not new_by_key:
        problems.append('fewer than 2 distinct non-trivial cases')

    # ---- evidence
    flat_samples = []
    for k, v in samples.items():
        for s in v:
            if len(flat_samples) < getattr(mod, 'MAX_SAMPLES', MAX_SAMPLES):
                flat_samples.append({'class': k, 'case': s})
    wall = time.time() - t0
    anchors = getattr(mod, 'ANCHORS', None)
    anchor_calls = {k: v for k, v in calls.items()
                    if anchors is None or any(a in k for a in anchors)}
    if anchors is None and len(anchor_calls) > 40:
        anchor_calls = dict(collections.Counter(anchor_calls).most_common(40))
    rule = mod.RULE if isinstance(mod.RULE, str) else mod.RULE[tier]
    cov = {
        'evaluations': counters.get('evaluations', 0),
        'distinct_nontrivial': distinct,
        'distinct_signatures': len(sigs),
        'rule': rule,
        'samples': flat_samples,
        'counters': {k: v for k, v in sorted(counters.items())},
        'notes': dict(sorted(notes.items())),
        'anchor_calls': anchor_calls,
        'unconstrained': counters.get('unconstrained', 0),
        'model_inconsistent': counters.get('model_inconsistent', 0),
        'discarded': counters.get('discarded', 0),
        'known_findings_hit': sorted(known_hit),
        'new_violation_keys': sorted(new_by_key),
        'shards': len(chunks),
        'problems': problems,
        'repo': common.REPO,
    }
    exh = getattr(mod, 'EXHAUSTIVE', None)
    if exh:
        e = exh(tier) if callable(exh) else exh
        if e:
            cov['exhaustive'] = True
            cov['exhaustive_subspace'] = e
    for k, v in extra.items():
        if k not in ('crashes',):
            cov.setdefault(k, v)
    ev = {
        'property_id': check_id,
        'tier': tier,
        'seed': seed,
        'level': mod.LEVEL,
        'coverage': cov,
        'assumptions': list(getattr(mod, 'ASSUMPTIONS', [])) + [
            'python %s; code under test imported from %s' % (
                sys.version.split()[0], common.REPO)],
        'wall_s': round(wall, 2),
        'violations': len(new_by_key),
    }
    os.makedirs(os.path.join(common.VERIF_DIR, 'evidence'), exist_ok=True)
    evp = os.path.join(common.VERIF_DIR, 'evidence', check_id + '.json')
    if os.environ.get('VERIF_REPO') and common.REPO != '/repo':
        # a run against a scratch copy (seeded change) must not replace the evidence
        # of the repository itself
        evp = os.path.join(outdir, 'evidence-scratch-copy.json')
    with open(evp + '.tmp', 'w') as f:
        json.dump(ev, f, indent=1, sort_keys=True, default=repr)
    os.replace(evp + '.tmp', evp)

    for ln in lines:
        print(ln)
    print('%s %s seed=%d: %d evaluations, %d distinct non-trivial, '
          '%d signatures, %d unconstrained, %.1fs' % (
              check_id, tier, seed, cov['evaluations'], distinct, len(sigs),
              cov['unconstrained'], wall))
    if new_by_key:
        return 1
    if problems:
        for p in problems:
            print('INCONCLUSIVE property=%s %s' % (check_id, p))
        for c in extra.get('crashes', [])[:2]:
            print(c)
        return 2
    return 0


def run_replay(mod, path):
    with open(path) as f:
        rp = json.load(f)
    ctx = Ctx(mod.ID, rp.get('tier', 'quick'), rp.get('seed', 0))
    if hasattr(mod, 'setup_worker'):
        mod.setup_worker(ctx)
    mod.replay(rp['case'], ctx)
    known = {k['key'] for k in load_known() if k['property'] == mod.ID}
    rc = 0
    for v in ctx.violations:
        if v['key'] in known:
            print('KNOWN-FINDING: property=%s key=%s %s' % (mod.ID, v['key'],
                                                            v['what']))
        else:
            print('VIOLATION property=%s replay=%s' % (mod.ID, path))
            print('  key=%s: %s' % (v['key'], v['what']))
            if v.get('detail'):
                print('  detail: %s' % (json.dumps(v['detail'], default=repr)[:2000]))
            rc = 1
    if not ctx.violations:
        print('replay: no violation observed')
    return rc
