"""Entry point:  python -m vf.run C07 --tier quick [--seed N] [--replay FILE]"""
import argparse
import os
import sys

from vf import harness


def main(argv=None):
    # (paths with lone surrogates - names that are not UTF-8 - must not make the
    # report itself fail)
    for stream in (sys.stdout, sys.stderr):
        try:
            stream.reconfigure(errors='backslashreplace')
        except Exception:
            pass
    ap = argparse.ArgumentParser()
    ap.add_argument('check')
    ap.add_argument('--tier', default=os.environ.get('VERIF_TIER', 'quick'),
                    choices=['quick', 'thorough'])
    ap.add_argument('--seed', type=int,
                    default=int(os.environ.get('VERIF_SEED', '0') or 0))
    ap.add_argument('--replay')
    ap.add_argument('--jobs', type=int)
    ap.add_argument('--only-units', type=int)
    a = ap.parse_args(argv)
    mod = harness.load_check(a.check)
    if a.replay:
        return harness.run_replay(mod, a.replay)
    return harness.run_check(mod, a.tier, a.seed, jobs=a.jobs,
                             only_units=a.only_units)


if __name__ == '__main__':
    sys.exit(main())
