"""Seeded ebuild-repository-shaped trees (C19, C20)."""
import os

from vf import common

CATS = ['app-misc', 'dev-libs', 'sys-apps', 'virtual', 'x11-base',
        # (names ending like the metadata sub-directories)
        'net-news', 'app-dtd', 'sec-glsa']
PKGS = ['foo', 'foo-bin', 'bar', 'bar2', 'libbaz', 'qux-tools', 'zed', '0ad', 'Babel',
        'GConf']


def gen_repo(rng, portable=True, with_ignored=True, odd=False):
    """-> tree spec (vf.gen.tree format).  @portable: names without whitespace /
    backslashes (needed by the fast generator scripts)."""
    nodes = []

    def d(p):
        nodes.append({'p': p, 't': 'd'})

    def f(p, data=None):
        if data is None:
            n = rng.choice([0, 1, 20, 200, 3000])
            if rng.random() < 0.02:
                n = rng.choice([1048576, 1048577, 1052576, 2 * 1048576 + 3])
            data = {'r': [rng.randrange(1 << 30), n]}
        nodes.append({'p': p, 't': 'f', 'c': data})

    def name(base):
        if portable or rng.random() < 0.7:
            return base
        return base + rng.choice([' x', '\\y', 'é', '\t'])

    cats = rng.sample(CATS, rng.randint(0, 4))
    catlist = []
    for c in cats:
        pk = rng.sample(PKGS, rng.randint(0 if odd else 1, 4))
        d(c)
        catlist.append(c)
        if rng.random() < 0.6 or not pk:
            f(c + '/metadata.xml', {'t': '<catmetadata/>\n'})
        for p in pk:
            pd = c + '/' + p
            d(pd)
            for v in range(rng.randint(1, 3)):
                f(pd + '/%s-%d.%d.ebuild' % (p, v, rng.randrange(10)),
                  {'t': 'EAPI=8\n# %d\n' % rng.randrange(10**6)})
            if rng.random() < 0.85:
                f(pd + '/metadata.xml', {'t': '<pkgmetadata>%d</pkgmetadata>\n'
                                         % rng.randrange(10**6)})
            if rng.random() < 0.5:
                d(pd + '/files')
                for k in range(rng.randint(1, 3)):
                    f(pd + '/files/' + name('%s-fix%d.patch' % (p, k)))
                if rng.random() < 0.4:
                    d(pd + '/files/' + name('2.0'))
                    f(pd + '/files/' + name('2.0') + '/nested.patch')
            if rng.random() < 0.15:
                f(pd + '/ChangeLog')
            # (no random draws below: derived from what exists so far)
            has_files = any(n['p'] == pd + '/files' for n in nodes)
            if has_files and len(nodes) % 3 == 0:
                # one file name both in the package directory and beneath files/
                f(pd + '/README', {'t': 'package readme\n'})
                f(pd + '/files/README', {'t': 'files readme\n'})
            if len(nodes) % 5 == 0:
                f(pd + '/.gitignore', {'t': '*.orig\n'})
            elif has_files and len(nodes) % 5 == 1:
                f(pd + '/files/.keep', {'t': ''})
    # special top-level directories
    if rng.random() < 0.9:
        d('profiles')
        f('profiles/categories', {'t': ''.join(c + '\n' for c in catlist)})
        if rng.random() < 0.7:
            f('profiles/repo_name', {'t': 'test\n'})
        if rng.random() < 0.5:
            d('profiles/arch')
            f('profiles/arch/make.defaults')
            if rng.random() < 0.4:
                d('profiles/arch/amd64')
                f('profiles/arch/amd64/parent')
    else:
        catlist = []
    if rng.random() < 0.7:
        d('eclass')
        for k in range(rng.randint(1, 3)):
            f('eclass/e%d.eclass' % k)
        if rng.random() < 0.3:
            d('eclass/tests')
            f('eclass/tests/t.sh')
    if rng.random() < 0.6:
        d('licenses')
        for k in range(rng.randint(1, 3)):
            f('licenses/' + name('LIC-%d' % k))
    if rng.random() < 0.85:
        d('metadata')
        f('metadata/layout.conf', {'t': 'masters =\n'})
        for t in ('timestamp', 'timestamp.chk', 'timestamp.x', 'timestamp.commit'):
            if rng.random() < 0.5:
                f('metadata/' + t, {'t': 'ts %d\n' % rng.randrange(10**6)})
        for sub in ('dtd', 'glsa', 'news', 'xml-schema'):
            if rng.random() < 0.6:
                d('metadata/' + sub)
                for k in range(rng.randint(1, 2)):
                    f('metadata/%s/item%d.xml' % (sub, k))
                if rng.random() < 0.4:
                    f('metadata/%s/timestamp.chk' % sub, {'t': 'x\n'})
                if sub == 'news' and rng.random() < 0.5:
                    d('metadata/news/2020-01-01-x')
                    f('metadata/news/2020-01-01-x/2020-01-01-x.en.txt')
        if len(nodes) % 2 == 0:
            # a metadata sub-directory that gets no Manifest of its own (as in
            # ::gentoo), next to those that do; no random draw is spent on it
            d('metadata/install-qa-check.d')
            f('metadata/install-qa-check.d/60tmpfiles-paths', {'t': '# qa\n'})
            if len(nodes) % 4 == 0:
                d('metadata/install-qa-check.d/sub')
                f('metadata/install-qa-check.d/sub/helper', {'t': 'h\n'})
        if rng.random() < 0.6:
            d('metadata/md5-cache')
            for c in cats:
                if rng.random() < 0.7:
                    d('metadata/md5-cache/' + c)
                    for k in range(rng.randint(1, 3)):
                        f('metadata/md5-cache/%s/pkg-%d' % (c, k))
    # hidden directories (skipped by every tool), sometimes two next to each other
    if rng.random() < 0.25:
        base = rng.choice([x for x in ('eclass', 'licenses', 'profiles')
                           if any(n['p'] == x for n in nodes)] or [None])
        if base:
            for hd in ('.cache', '.tmp'):
                d(base + '/' + hd)
                f(base + '/' + hd + '/scratch')
    if with_ignored:
        for ig in ('distfiles', 'local', 'packages'):
            if rng.random() < 0.3:
                d(ig)
                f(ig + '/something.tar.gz')
                if rng.random() < 0.3:
                    d(ig + '/sub')
                    f(ig + '/sub/x')
    # top-level files
    if rng.random() < 0.5:
        f('header.txt')
    if rng.random() < 0.2:
        f('.gitignore', {'t': '*.o\n'})
    if not any(n['t'] == 'f' for n in nodes):
        f('README')
    return {'nodes': nodes}, catlist
