"""A scenario = consistent generated tree + layout, mutated, fully materialised.

build(rng, root, ...) generates on disk and returns a JSON-able case that
rebuild(root, case) reproduces byte for byte without using the generators.
"""
import os

from vf import common
from vf.gen import layout as glayout
from vf.gen import mutate as gmutate
from vf.gen import tree as gtree
from vf.model import mtext

BASE_MT = 1500000000


def assign_mtimes(rng, root):
    """Deterministic, distinct, sub-second mtimes for every regular file."""
    ops = []
    files = []
    for dp, dn, fn in os.walk(root):
        for f in fn:
            p = os.path.join(dp, f)
            if os.path.isfile(p) and not os.path.islink(p):
                files.append(os.path.relpath(p, root))
    files.sort()
    order = list(range(len(files)))
    rng.shuffle(order)
    for f, i in zip(files, order):
        mt = BASE_MT + i * 2 + rng.choice([0, 0.25, 0.5, 0.75])
        ops.append({'op': 'utime', 'p': f, 'mt': mt})
    return ops


def build(rng, root, classes, nmut, opts=None):
    opts = opts or {}
    skel = gtree.gen_skeleton(
        rng, max_dirs=opts.get('max_dirs', 6), max_files=opts.get('max_files', 14),
        depth=opts.get('depth', 4),
        hostile=opts.get('hostile', rng.choice([0, 0.3, 0.6])),
        symlinks=opts.get('symlinks', True), specials=opts.get('specials', True))
    layout, info = glayout.build_consistent(rng, root, skel, opts)
    ops, recs = [], []
    tries = 0
    while len(recs) < nmut and tries < nmut * 6:
        tries += 1
        klass = rng.choice(classes)
        r = gmutate.mutate(rng, root, layout, info, klass)
        if r is None:
            continue
        o, rec = r
        ops.extend(o)
        recs.append(rec)
    glayout.render(root, layout)
    for op in ops:
        if op.get('after_render'):
            gmutate.apply_op(root, op)
    mnodes = glayout.manifest_nodes(root, layout)
    # ops that were after_render are already reflected in the Manifest bytes
    mt_ops = assign_mtimes(rng, root)
    gmutate.apply_ops(root, mt_ops)
    case = {'skel': skel,
            'ops': [o for o in ops if not o.get('after_render')],
            'manifests': mnodes, 'mtimes': mt_ops, 'mutations': recs}
    return case, layout, info


def rebuild(root, case):
    gtree.materialize(case['skel'], root)
    gmutate.apply_ops(root, case['ops'])
    for n in case['manifests']:
        p = os.path.join(root, n['p'])
        os.makedirs(os.path.dirname(p), exist_ok=True)
        with open(p, 'wb') as f:
            f.write(common.content_bytes(n['c']))
    gmutate.apply_ops(root, [o for o in case['mtimes']
                             if os.path.lexists(os.path.join(root, o['p']))])


def existing_dirs(root, hidden=False):
    out = ['']
    for dp, dn, fn in os.walk(root):
        for d in dn:
            rel = os.path.relpath(os.path.join(dp, d), root)
            if not hidden and any(c.startswith('.') for c in rel.split('/')):
                continue
            if os.path.islink(os.path.join(dp, d)):
                continue
            out.append(rel)
    return sorted(out)


def pick_last_mtime(rng, case):
    mts = sorted(o['mt'] for o in case['mtimes'])
    if not mts:
        return None
    k = rng.randrange(7)
    if k == 0:
        return None
    if k == 6:
        # later than anything in the tree, directories included (a verification long
        # after the last change)
        return 4000000000.0
    if k == 1:
        return mts[0] - 10
    if k == 2:
        return mts[-1] + 10
    m = rng.choice(mts)
    if k == 3:
        return m
    if k == 4:
        return m - 0.25
    return m + 0.25
