"""Seeded generators for Manifest entries and Manifest text (C08, C09, C18)."""
import string

from vf.model import mtext

HOSTILE_CHARS = [
    ' ', '\t', '\n', '\r', '\x0b', '\x0c', '\x00', '\x01', '\x1b', '\x1c', '\x1f',
    '\x7f', '\x80', '\x85', '\x9f', '\xa0', '\xad', '\\', '"', "'", '-', '.', '#',
    '\u1680', '\u2000', '\u200a', '\u200b', '\u2028', '\u2029', '\u202f', '\u205f',
    '\u3000', '\ufeff', '\u0301', '\u00e9', '\u0416', '\u4e2d', '\uffff', '\ufffd',
    '\U0001f600', '\U00010000', '\U0010ffff', '\U000e0001',
    'x', 'u', 'U', '0', '4', '1', 'F', 'f', 'A', 'a',
    # a literal backslash followed by what looks like an escape (the writer turns the
    # backslash into \\x5C: decoding must not look at its own output again)
    '\\u0041', '\\U00000041', '\\x41', '\\x5C', '\\x5Cu0041', '\\U0001F600',
]
PLAIN = string.ascii_letters + string.digits + '_-+.'


def rand_component(rng, hostile=0.5, maxlen=8):
    n = rng.randint(1, maxlen)
    out = []
    for _ in range(n):
        if rng.random() < hostile:
            r = rng.random()
            if r < 0.8:
                out.append(rng.choice(HOSTILE_CHARS))
            else:
                cp = rng.randrange(0x20, 0x110000)
                if 0xd800 <= cp <= 0xdfff:
                    cp = 0xe000
                out.append(chr(cp))
        else:
            out.append(rng.choice(PLAIN))
    s = ''.join(out).replace('/', '_')
    if s in ('.', '..'):
        s = 'dot'
    return s


def rand_path(rng, dist=False, hostile=0.5):
    depth = 1 if dist else rng.choice([1, 1, 2, 2, 3, 5])
    comps = [rand_component(rng, hostile) for _ in range(depth)]
    p = '/'.join(comps)
    if not dist and rng.random() < 0.08:
        # legal but non-normalised spellings must round-trip verbatim too
        k = rng.randrange(6)
        if k == 0:
            p = p.replace('/', '//', 1) if '/' in p else p + '//' + 'x'
        elif k == 1:
            p = './' + p
        elif k == 2:
            p = p + '/'
        elif k == 3:
            p = p + '/../' + rand_component(rng, 0)
        elif k == 4:
            p = p + '/./' + rand_component(rng, 0)
        else:
            p = '../' + p
    if p.startswith('/'):
        p = 'a' + p
    return p


def rand_hex(rng, n):
    # (digests are usually written in lower case, but a Manifest may carry them in
    # upper or mixed case; they are text to the format)
    alphabet = rng.choice(['0123456789abcdef'] * 3 + ['0123456789ABCDEF',
                                                       '0123456789abcdefABCDEF'])
    return ''.join(rng.choice(alphabet) for _ in range(n))


SIZES = [0, 1, 2, 9, 10, 127, 128, 255, 4096, 2**31 - 1, 2**31, 2**32, 2**53 + 1,
         2**63 - 1, 2**63, 2**64 - 1, 2**64, 2**64 + 1, 10**30]
SUM_NAMES = list(mtext.GLEP_HASHES) + ['FOO', 'SHA_1', 'x', 'BLAKE2B_256', 'sha256',
                                       '__size__', '__exists__', '{', '}', '{0}', '{}',
                                       'SHA{512', '%s', '{name}']


def rand_sums(rng):
    n = rng.choice([0, 0, 1, 2, 2, 3, 5, 10])
    names = rng.sample(SUM_NAMES, min(n, len(SUM_NAMES)))
    return {k: rand_hex(rng, rng.choice([1, 8, 32, 40, 64, 128])) for k in names}


def rand_ts(rng):
    y = rng.choice([1, 9, 10, 99, 100, 999, 1000, 1969, 1970, 2017, 2038, 9999,
                    rng.randint(1, 9999)])
    mo = rng.randint(1, 12)
    d = rng.randint(1, 28)
    return '%04d-%02d-%02dT%02d:%02d:%02dZ' % (
        y, mo, d, rng.randint(0, 23), rng.randint(0, 59), rng.randint(0, 59))


def rand_entry(rng, hostile=0.5, tags=None):
    tag = rng.choice(tags or mtext.ALL_TAGS)
    if tag == 'TIMESTAMP':
        e = {'tag': tag, 'ts': rand_ts(rng)}
        if rng.random() < 0.3:
            # in-memory timestamps finer than the format's one-second resolution
            # (datetime.utcnow() as the CLI passes it); ignored by the text model
            e['us'] = rng.choice([1, 5, 500000, 999999, rng.randrange(1000000)])
        return e
    if tag == 'IGNORE':
        return {'tag': tag, 'path': rand_path(rng, hostile=hostile)}
    size = rng.choice(SIZES) if rng.random() < 0.5 else rng.randrange(0, 10**6)
    return {'tag': tag, 'path': rand_path(rng, dist=(tag == 'DIST'),
                                          hostile=hostile),
            'size': size, 'sums': rand_sums(rng)}


def rand_entries(rng, maxn=12, hostile=0.5):
    return [rand_entry(rng, hostile) for _ in range(rng.randint(0, maxn))]


# ----------------------------------------------------------------- grammar
# every field independently valid / invalid

BAD_TAGS = ['data', 'DATA2', 'FILE', 'MANIFESTS', 'Data', '#', 'IGNORED', 'X',
            'TIMESTAMPS', 'DIST\u00a0', '\u0044ATA\u0301', 'AUX:', 'EBUILDS']
GOOD_PATHS = ['a', 'a/b', 'foo.txt', 'a\\x20b', '\\u00E9', 'x\\U0001F600',
              '\\x5Cn', 'sub/Manifest', 'files/x', '\\x41', 'a\\x2Fb', '\\u2028']
BAD_PATHS = ['/abs', '/', '\\x2Fetc/passwd', '\\u002Fx', '\\U0000002Fx',
             'a\\', 'a\\q', '\\x4', '\\x4g', '\\u123', '\\u12G4', '\\U0001F60',
             '\\U00110000', '\\UFFFFFFFF', '\\U7FFFFFFF', '\\U80000000',
             '\\x', '\\u', '\\U', '\\\\', 'a\\n', '\\X41', '\\x2fabs',
             # digit fields that int(.., 16) would tolerate but that are not hex
             '\\u0x41', '\\u0X2f', '\\u1_0F', '\\U0010_FFF', '\\x\u0664\u0661',
             '\\x\uff11\uff12', '\\u+041', '\\x 1', '\\U-0000041']
EITHER_PATHS = ['\\uD800', 'a\\uDFFFb', '\\U0000D800']
GOOD_SIZES = ['0', '1', '42', '000', '18446744073709551616', '007']
BAD_SIZES = ['-1', '-42', 'x', '1x', '0x10', '1.0', '1e3', '', '--1', 'ten',
             '1,000', '\u221e',
             # characters str.isdigit() accepts but int() does not, and a number
             # beyond Python's int <-> str conversion limit
             '\u00b2', '1\u00b3', '\u2460', '\u2082\u2084']
EITHER_SIZES = ['+1', '-0', '1_0', '\u0663', '\uff11\uff12', '9' * 5000]
GOOD_TS = ['2017-10-22T18:06:41Z', '1000-01-01T00:00:00Z', '9999-12-31T23:59:59Z',
           '0999-01-01T00:00:00Z', '0001-01-01T00:00:00Z', '2020-02-29T12:00:00Z']
BAD_TS = ['2017-10-22', '2017-10-22T18:06:41', '2017-10-22 18:06:41Z', 'now',
          '2017-13-01T00:00:00Z', '2017-02-30T00:00:00Z', '2017-10-22T24:00:00Z',
          '2017-10-22T18:60:41Z', '2017-10-22T18:06:41+00:00', '20171022T180641Z',
          '2019-02-29T00:00:00Z', '2017-10-22T18:06:41ZZ', 'T', '1508695601',
          '12017-10-22T18:06:41Z', '2017-10-22t18:06:41z', '2017-00-10T00:00:00Z',
          '2017-10-00T00:00:00Z']
EITHER_TS = ['2017-1-2T3:4:5Z', '2017-10-22T18:06:60Z', '0000-01-01T00:00:00Z',
             '999-01-01T00:00:00Z']


def grammar_line(rng):
    """A line with each field drawn independently from valid / invalid /
    unconstrained alternatives.  Returns the text of the line (no newline)."""
    r = rng.random()
    tag = rng.choice(mtext.ALL_TAGS) if r < 0.85 else rng.choice(BAD_TAGS)

    def pick(good, bad, either, pbad=0.15, peither=0.05):
        x = rng.random()
        if x < pbad:
            return rng.choice(bad)
        if x < pbad + peither:
            return rng.choice(either)
        return rng.choice(good)

    sep = lambda: rng.choice([' ', ' ', ' ', '  ', '\t', ' \t '])
    if tag == 'TIMESTAMP':
        toks = [tag, pick(GOOD_TS, BAD_TS, EITHER_TS)]
        if rng.random() < 0.1:
            toks.append(rng.choice(['x', '0']))
        if rng.random() < 0.05:
            toks = toks[:1]
    elif tag == 'IGNORE':
        toks = [tag, pick(GOOD_PATHS, BAD_PATHS, EITHER_PATHS)]
        if rng.random() < 0.1:
            toks.append(rng.choice(['x', '0']))
        if rng.random() < 0.05:
            toks = toks[:1]
    else:
        p = pick(GOOD_PATHS, BAD_PATHS, EITHER_PATHS)
        if tag == 'DIST' and rng.random() < 0.7:
            p = rng.choice(['foo-1.tar.gz', 'a', 'x\\x20y', 'a\\x2Fb', 'a/b',
                            '\\u002F', 'a\\U0000002Fb', 'ok.tar\\x2Egz'])
        toks = [tag, p, pick(GOOD_SIZES, BAD_SIZES, EITHER_SIZES)]
        nsum = rng.choice([0, 1, 1, 2, 3])
        for _ in range(nsum):
            toks += [rng.choice(SUM_NAMES), rand_hex(rng, rng.choice([2, 8, 32]))]
        x = rng.random()
        if x < 0.12:
            toks.append(rng.choice(SUM_NAMES))        # name without value
        elif x < 0.17:
            toks = toks[:rng.randint(1, 2)]           # too few fields
    line = toks[0]
    for t in toks[1:]:
        line += sep() + t
    if rng.random() < 0.1:
        line = rng.choice([' ', '\t']) + line
    if rng.random() < 0.1:
        line = line + rng.choice([' ', '\t', '  '])
    return line.replace('\n', '')


def grammar_text(rng, maxlines=6):
    n = rng.randint(1, maxlines)
    lines = []
    for _ in range(n):
        x = rng.random()
        if x < 0.08:
            lines.append(rng.choice(['', ' ', '\t']))
        elif x < 0.55:
            # a fully valid line (so that a bad one sits between good ones)
            e = rand_entry(rng, hostile=0.2)
            lines.append(mtext.entry_line(e))
        else:
            lines.append(grammar_line(rng))
    text = '\n'.join(lines)
    if rng.random() < 0.85:
        text += '\n'
    return text


# ---------------------------------------------------------- token sequences
TOKEN_ALPHABET = ['DATA', 'DIST', 'IGNORE', 'TIMESTAMP', 'AUX', 'FOO', 'a', 'a/b',
                  '/x', '0', '-1', 'SHA1', 'ff', '2020-01-01T00:00:00Z', '\\x2Fq',
                  '\\q']


def token_sequences(maxlen):
    """All sequences of 1..maxlen tokens (as lists)."""
    import itertools
    for n in range(1, maxlen + 1):
        for seq in itertools.product(TOKEN_ALPHABET, repeat=n):
            yield seq


# ---------------------------------------------------------------- mutation

def mutate_text(rng, text):
    """Byte-level mutation; returns a str or None if no longer UTF-8."""
    b = bytearray(text.encode('utf8', 'surrogatepass'))
    nops = rng.choice([1, 1, 1, 2, 3])
    for _ in range(nops):
        op = rng.randrange(6)
        if not b:
            b.extend(b'DATA a 0\n')
        i = rng.randrange(len(b))
        if op == 0:
            b[i] = rng.randrange(256)
        elif op == 1:
            del b[i]
        elif op == 2:
            b.insert(i, rng.choice(b' \t\n\\/-0123456789abcdefxuUDATIS\x00\x7f\xc2\xa0'))
        elif op == 3:
            j = rng.randrange(len(b))
            b[i], b[j] = b[j], b[i]
        elif op == 4:
            j = min(len(b), i + rng.randint(1, 12))
            b[i:i] = b[i:j]
        else:
            b[i] ^= 1 << rng.randrange(8)
    try:
        return bytes(b).decode('utf8')
    except UnicodeDecodeError:
        return None
