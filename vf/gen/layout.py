"""Manifest layouts on top of generated trees.

A *layout* is the logical description of all Manifest files of a tree:
  {'top': 'Manifest',
   'mans': {mpath: {'fmt': 'plain'|'gz'|..., 'parent': mpath|None,
                    'entries': [entry dicts (vf.model.mtext), MANIFEST entries that
                                refer to another Manifest of the layout carry
                                '_auto': [hash names]]}}}
render(root, layout) writes the files bottom-up with the independent writer,
recomputing the '_auto' MANIFEST entries from the bytes of the child (a
consistent hash chain).  `stop_above` leaves the chain broken on purpose (C02).
"""
import os

from vf import common
from vf.model import match as mmatch
from vf.model import mtext

FMTS = ['plain', 'gz', 'bz2', 'lzma', 'xz']


def man_name(base, fmt):
    return base if fmt == 'plain' else base + '.' + fmt


def order_children_first(layout):
    mans = layout['mans']
    out, seen = [], set()

    def visit(m):
        if m in seen:
            return
        seen.add(m)
        for c, d in mans.items():
            if d['parent'] == m:
                visit(c)
        out.append(m)
    visit(layout['top'])
    for m in mans:
        visit(m)
    return out


def render_one(root, layout, mpath):
    """Bytes of one Manifest with its '_auto' entries recomputed from disk."""
    d = layout['mans'][mpath]
    mdir = os.path.dirname(mpath)
    ents = []
    for e in d['entries']:
        if e.get('_auto') is not None:
            cp = mtext.full_path(mdir, e)
            try:
                with open(os.path.join(root, cp), 'rb') as f:
                    data = f.read()
            except OSError:
                data = None
            if data is not None:
                sums = mtext.digests(e['_auto'], data)
                # hash names this Python cannot compute get a placeholder value
                sums = {h: (v if v is not None else 'ab' * 32) for h, v in sums.items()}
                e = dict(e, size=len(data), sums=sums)
        ents.append(e)
    text = mtext.render(ents)
    if d.get('signed_by'):
        text = d['signed_by'](text)
    return mtext.compress(d['fmt'], text.encode('utf8', 'surrogatepass'))


def render(root, layout, only=None):
    """Write all (or @only) Manifests, children before parents."""
    for mpath in order_children_first(layout):
        if only is not None and mpath not in only:
            continue
        data = render_one(root, layout, mpath)
        p = os.path.join(root, mpath)
        os.makedirs(os.path.dirname(p), exist_ok=True)
        with open(p, 'wb') as f:
            f.write(data)


def chain_to_top(layout, mpath):
    out = []
    while mpath is not None:
        out.append(mpath)
        mpath = layout['mans'][mpath]['parent']
    return out


def visible_files(root):
    """Walk-visible non-directory paths (hidden names skipped, directory
    symlinks followed), plus the set of directories seen through a symlink."""
    res = mmatch.Result()
    files, via_link = [], set()

    def walk(absdir, rel, stack, linked):
        st = os.stat(absdir)
        key = (st.st_dev, st.st_ino)
        if key in stack:
            raise RuntimeError('loop')
        for name in sorted(os.listdir(absdir)):
            if name.startswith('.'):
                continue
            p = name if not rel else rel + '/' + name
            ap = os.path.join(absdir, name)
            if os.path.isdir(ap):
                lk = linked or os.path.islink(ap)
                if lk:
                    via_link.add(p)
                    via_link.add(os.path.relpath(os.path.realpath(ap),
                                                 os.path.realpath(root)))
                walk(ap, p, stack + [key], lk)
            else:
                files.append(p)
    walk(root, '', [], False)
    return files, via_link


def rand_hashes(rng, allow_empty=True):
    sup = mtext.supported_hashes()
    r = rng.random()
    if r < 0.07 and allow_empty:
        return []
    if r < 0.6:
        return [rng.choice(sup)]
    return sorted(rng.sample(sup, rng.randint(2, 3)))


def build_consistent(rng, root, skel, opts=None):
    """Materialise @skel under @root, invent a Manifest layout that describes it
    exactly, write it.  Returns (layout, info)."""
    from vf.gen import tree as gtree
    opts = opts or {}
    gtree.materialize(skel, root)
    files, via_link = visible_files(root)
    real_dirs = [n['p'] for n in skel['nodes'] if n['t'] == 'd'
                 and not n.get('hidden')
                 and not any(c.startswith('.') for c in n['p'].split('/'))]
    # ---- what is ignored
    ignores = []
    # special files and dangling links, under every path they are visible at
    for f in files:
        ap = os.path.join(root, f)
        if os.path.isfile(ap):
            continue
        if os.path.islink(ap) and not os.path.exists(ap):
            if rng.random() < 0.8:
                ignores.append(f)
        else:
            ignores.append(f)
    if rng.random() < opts.get('p_ignore', 0.35):
        cands = [f for f in files if f not in ignores] + \
                [d for d in real_dirs if d not in via_link]
        for _ in range(rng.randint(1, 2)):
            if cands:
                ignores.append(rng.choice(cands))
    # hidden directories are skipped by the walk anyway; IGNOREing them is legal
    hidden_dirs = [n['p'] for n in skel['nodes'] if n['t'] == 'd' and n.get('hidden')]
    extra_ignores = [h for h in hidden_dirs if rng.random() < 0.4]
    ignores = sorted(set(ignores))

    def is_ignored(p):
        return any(mtext.comp_prefix(p, ig) for ig in ignores)

    # ---- Manifest directories (never inside something seen through a symlink)
    mdirs = ['']
    for d in real_dirs:
        if d in via_link or any(mtext.comp_prefix(d, v) for v in via_link):
            continue
        if is_ignored(d):
            continue
        if rng.random() < opts.get('p_mandir', 0.45):
            mdirs.append(d)
    fmts = opts.get('fmts') or FMTS
    layout = {'top': 'Manifest', 'mans': {}}
    by_dir = {}

    def nearest(dirpath, strict=False):
        best = None
        for m in mdirs:
            if strict and m == dirpath:
                continue
            if mtext.comp_prefix(dirpath, m):
                if best is None or len(m) > len(best):
                    best = m
        return best

    for d in sorted(mdirs, key=lambda x: (x.count('/') if x else -1, x)):
        fmt = 'plain' if d == '' else rng.choice(fmts)
        name = man_name('Manifest', fmt)
        mpath = name if not d else d + '/' + name
        parent_dir = None if d == '' else nearest(d, strict=True)
        layout['mans'][mpath] = {'fmt': fmt, 'parent': None if parent_dir is None
                                 else by_dir[parent_dir][0], 'entries': []}
        by_dir[d] = [mpath]
        if rng.random() < opts.get('p_split', 0.12):
            # a second Manifest in the same directory, referenced by the first
            fmt2 = rng.choice(fmts)
            m2 = man_name('Manifest.files', fmt2)
            m2 = m2 if not d else d + '/' + m2
            layout['mans'][m2] = {'fmt': fmt2, 'parent': mpath, 'entries': []}
            by_dir[d].append(m2)
            if rng.random() < 0.35:
                # ... and a third one referenced by the second (a same-directory
                # chain Manifest -> Manifest.files -> Manifest.more)
                fmt3 = rng.choice(fmts)
                m3 = man_name('Manifest.more', fmt3)
                m3 = m3 if not d else d + '/' + m3
                layout['mans'][m3] = {'fmt': fmt3, 'parent': m2, 'entries': []}
                by_dir[d].append(m3)
    # MANIFEST entries in parents
    for mpath, md in layout['mans'].items():
        if md['parent'] is None:
            continue
        pdir = os.path.dirname(md['parent'])
        rel = os.path.relpath(mpath, pdir or '.')
        layout['mans'][md['parent']]['entries'].append(
            {'tag': 'MANIFEST', 'path': rel, 'size': 0, 'sums': {},
             '_auto': rand_hashes(rng, allow_empty=False)})
    # ---- file entries
    listed = {}
    manifest_paths = set(layout['mans'])
    for f in files:
        if f in manifest_paths or is_ignored(f):
            continue
        if not os.path.isfile(os.path.join(root, f)):
            continue        # special files / dangling links: IGNOREd or left stray
        with open(os.path.join(root, f), 'rb') as fh:
            data = fh.read()
        fdir = os.path.dirname(f)
        covering = [m for m in mdirs if mtext.comp_prefix(fdir, m)]
        covering.sort(key=len, reverse=True)
        r = rng.random()
        if r < 0.75 or len(covering) == 1:
            chosen = [covering[0]]
        elif r < 0.88:
            chosen = [rng.choice(covering[1:])]
        else:
            chosen = [covering[0], rng.choice(covering)]   # duplicate entries
        hs0 = rand_hashes(rng)
        listed[f] = []
        for k, md in enumerate(chosen):
            target = rng.choice(by_dir[md])
            rel = os.path.relpath(f, md or '.')
            tag = rng.choice(['DATA'] * 8 + ['MISC', 'EBUILD'])
            if len(chosen) > 1:
                tag = 'DATA'
            path = rel
            if rel.startswith('files/') and rng.random() < 0.5:
                tag, path = 'AUX', rel[6:]
            if k == 0:
                hs = hs0
            else:
                # equal / subset / superset / disjoint hash sets, all agreeing
                sup = mtext.supported_hashes()
                hs = rng.choice([hs0, hs0[:1], sorted(set(hs0) | {rng.choice(sup)}),
                                 [h for h in sup if h not in hs0][:2]])
            e = mtext.file_entry(tag, path, data, hs)
            layout['mans'][target]['entries'].append(e)
            listed[f].append(target)
    # hidden files that are listed anyway
    for n in skel['nodes']:
        if n['t'] == 'f' and n.get('hidden') and rng.random() < 0.3:
            f = n['p']
            if any(mtext.comp_prefix(f, v) for v in via_link) or is_ignored(f):
                continue
            md = nearest(os.path.dirname(f))
            if md is None:
                continue
            data = common.content_bytes(n['c'])
            layout['mans'][by_dir[md][0]]['entries'].append(
                mtext.file_entry('DATA', os.path.relpath(f, md or '.'), data,
                                 rand_hashes(rng)))
            listed[f] = [by_dir[md][0]]
    # ---- IGNORE entries
    for ig in ignores + extra_ignores:
        md = nearest(os.path.dirname(ig))
        covering = [m for m in mdirs if mtext.comp_prefix(os.path.dirname(ig), m)]
        md = rng.choice(covering)
        layout['mans'][rng.choice(by_dir[md])]['entries'].append(
            {'tag': 'IGNORE', 'path': os.path.relpath(ig, md or '.')})
    # ---- extras that must not matter
    top = layout['mans']['Manifest']['entries']
    if rng.random() < 0.4:
        top.append({'tag': 'TIMESTAMP', 'ts': '2017-10-22T18:06:41Z'})
    for mpath, md in layout['mans'].items():
        if rng.random() < 0.25:
            md['entries'].append({'tag': 'DIST', 'path': 'dist-%d.tar.gz'
                                  % rng.randrange(1000), 'size': rng.randrange(10**6),
                                  'sums': {'SHA512': '%0128x' % rng.getrandbits(512)}})
        if rng.random() < 0.15:
            md['entries'].append({'tag': 'IGNORE', 'path': 'not-there-%d'
                                  % rng.randrange(100)})
        rng.shuffle(md['entries'])
    render(root, layout)
    info = {'listed': listed, 'ignores': ignores, 'mdirs': mdirs,
            'by_dir': by_dir, 'dirs': [''] + real_dirs, 'via_link': sorted(via_link)}
    return layout, info


def strip_private(layout):
    """JSON-able copy of a layout (for replay files)."""
    out = {'top': layout['top'], 'mans': {}}
    for m, d in layout['mans'].items():
        out['mans'][m] = {'fmt': d['fmt'], 'parent': d['parent'],
                          'entries': [dict(e) for e in d['entries']]}
    return out


def manifest_nodes(root, layout):
    """Tree-spec nodes holding the Manifest files exactly as they are on disk."""
    nodes = []
    for mpath in layout['mans']:
        p = os.path.join(root, mpath)
        if os.path.exists(p):
            with open(p, 'rb') as f:
                nodes.append({'p': mpath, 't': 'f', 'c': common.spec_of(f.read())})
    return nodes
