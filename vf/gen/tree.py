"""Seeded generators of directory trees and Manifest layouts, and their
materialisation on disk.

A *tree spec* is JSON-able:
  {'nodes': [{'p': 'a/b', 't': 'd'} | {'p':..., 't':'f', 'c': <content spec>, 'mt': <mtime>}
             | {'p':..., 't':'l', 'to': '<target>'} | {'p':..., 't':'fifo'|'sock'}, ...]}
Parents always precede children.  Manifest files are ordinary 'f' nodes whose
content was rendered by the independent writer (vf.model.mtext).
"""
import os
import socket
import stat

from vf import common
from vf.model import mtext

NAME_CHARS_HOSTILE = [' ', '\t', '\n', '\\', '\xa0', ' ', '\x85', '́', 'é',
                      '\U0001f600', '\x7f', '\x1b', '"', "'", '#', '-', '　', '\r']
# ... plus every other Unicode white-space / line-break / invisible character that
# a writer has to escape or a reader might strip
NAME_CHARS_HOSTILE += [chr(c) for c in (
    0x0b, 0x0c, 0x1c, 0x1d, 0x1e, 0x1f, 0x1680, 0x2000, 0x2001, 0x2002, 0x2003, 0x2004,
    0x2005, 0x2006, 0x2007, 0x2008, 0x2009, 0x200a, 0x2028, 0x2029, 0x202f, 0x205f,
    0x200b, 0xfeff, 0x00ad)]
NAME_PLAIN = 'abcdefghijklmnopqrstuvwxyzABCXYZ0123456789_-+.'
LOOKALIKES = ['foo', 'foo.bar', 'foobar', 'foo bar', 'fo', 'foo-1']
MANIFEST_LOOKALIKES = ['Manifest.txt', 'Manifests', 'manifest', 'Manifest.old',
                       'Manifest.gz.bak', 'xManifest']


def rand_name(rng, hostile=0.3, used=()):
    for _ in range(50):
        r = rng.random()
        if r < 0.12:
            nm = rng.choice(LOOKALIKES)
        elif r < 0.16:
            nm = rng.choice(MANIFEST_LOOKALIKES)
        else:
            n = rng.randint(1, 7)
            nm = ''.join(rng.choice(NAME_CHARS_HOSTILE) if rng.random() < hostile
                         else rng.choice(NAME_PLAIN) for _ in range(n))
        if nm in ('.', '..') or nm in used or nm.startswith('.') or \
                nm.startswith('Manifest') and nm in ('Manifest', 'Manifest.gz',
                                                     'Manifest.bz2', 'Manifest.lzma',
                                                     'Manifest.xz'):
            continue
        if len(nm.encode('utf8')) > 80:
            continue
        return nm
    return 'n%d' % rng.randrange(10**6)


def rand_content(rng):
    r = rng.random()
    if r < 0.12:
        return {'t': ''}
    if r < 0.75:
        n = rng.randint(1, 64)
        if rng.random() < 0.5:
            return {'t': ''.join(rng.choice('abc \n') for _ in range(n))}
        return {'x': rng.randbytes(n).hex()}
    if r < 0.97:
        return {'r': [rng.randrange(1 << 30), rng.choice([65534, 65536, 65538, 1000,
                                                           4096])]}
    return {'r': [rng.randrange(1 << 30), rng.choice([1048574, 1048576, 1048578])]}


def same_size_other(rng, spec):
    """Another content spec of the same length but different bytes."""
    b = common.content_bytes(spec)
    if not b:
        return None
    for _ in range(10):
        nb = bytearray(b)
        i = rng.randrange(len(nb))
        nb[i] ^= 1 << rng.randrange(8)
        if bytes(nb) != b:
            if len(nb) > 4096:
                # keep the replay compact: seeded block with one differing byte
                return {'x': bytes(nb).hex()}
            return common.spec_of(bytes(nb))
    return None


def gen_skeleton(rng, max_dirs=6, max_files=18, depth=4, hostile=0.3,
                 hidden=True, symlinks=True, specials=True):
    """Directories + files (+ hidden, symlinks, special files)."""
    nodes = []
    dirs = ['']
    ndirs = rng.randint(0, max_dirs)
    for _ in range(ndirs):
        parent = rng.choice(dirs)
        if parent.count('/') + (1 if parent else 0) >= depth:
            continue
        used = {n['p'].rsplit('/', 1)[-1] for n in nodes
                if os.path.dirname(n['p']) == parent}
        nm = rand_name(rng, hostile, used)
        if 'files' not in used and rng.random() < 0.12:
            # a directory called "files": what lies beneath may be listed by AUX
            # entries (whose path field has an implicit files/ prefix)
            nm = 'files'
        sibs = [n['p'].rsplit('/', 1)[-1] for n in nodes
                if n['t'] == 'd' and os.path.dirname(n['p']) == parent]
        if sibs and rng.random() < 0.25:
            # a sibling whose name is a string prefix (not a component prefix)
            cand = rng.choice(sibs) + rng.choice(['-extra', '.bar', 'bar', ' x', '1'])
            if cand not in used:
                nm = cand
        p = nm if not parent else parent + '/' + nm
        nodes.append({'p': p, 't': 'd'})
        dirs.append(p)
    nfiles = rng.randint(1, max_files)
    for _ in range(nfiles):
        parent = rng.choice(dirs)
        used = {n['p'].rsplit('/', 1)[-1] for n in nodes
                if os.path.dirname(n['p']) == parent}
        nm = rand_name(rng, hostile, used)
        p = nm if not parent else parent + '/' + nm
        nodes.append({'p': p, 't': 'f', 'c': rand_content(rng)})
    if hidden and rng.random() < 0.5:
        for _ in range(rng.randint(1, 3)):
            parent = rng.choice(dirs)
            nm = '.' + rand_name(rng, 0.1)
            p = nm if not parent else parent + '/' + nm
            if any(n['p'] == p for n in nodes):
                continue
            if rng.random() < 0.6:
                nodes.append({'p': p, 't': 'f', 'c': rand_content(rng), 'hidden': 1})
            else:
                nodes.append({'p': p, 't': 'd', 'hidden': 1})
                nodes.append({'p': p + '/inner', 't': 'f', 'c': rand_content(rng),
                              'hidden': 1})
    files = [n['p'] for n in nodes if n['t'] == 'f' and not n.get('hidden')]
    if symlinks and rng.random() < 0.4:
        for _ in range(rng.randint(1, 2)):
            parent = rng.choice(dirs)
            used = {n['p'] for n in nodes}
            nm = 'ln' + rand_name(rng, 0.1)
            p = nm if not parent else parent + '/' + nm
            if p in used:
                continue
            r = rng.random()
            if r < 0.5 and files:
                tgt = rng.choice(files)
                rel = os.path.relpath(tgt, parent or '.')
                nodes.append({'p': p, 't': 'l', 'to': rel, 'kind': 'file'})
            elif r < 0.8 and len(dirs) > 1:
                # directory link to a directory that is not an ancestor (no loop)
                cands = [d for d in dirs if d and not mtext.comp_prefix(parent, d)
                         and not mtext.comp_prefix(d, p)]
                if cands:
                    tgt = rng.choice(cands)
                    rel = os.path.relpath(tgt, parent or '.')
                    nodes.append({'p': p, 't': 'l', 'to': rel, 'kind': 'dir'})
            else:
                nodes.append({'p': p, 't': 'l', 'to': 'no-such-target', 'kind': 'dangling'})
    if specials and rng.random() < 0.12:
        parent = rng.choice(dirs)
        nm = 'sp' + rand_name(rng, 0)
        p = nm if not parent else parent + '/' + nm
        if not any(n['p'] == p for n in nodes):
            nodes.append({'p': p, 't': rng.choice(['fifo', 'sock'])})
    return {'nodes': nodes}


def materialize(spec, root):
    os.makedirs(root, exist_ok=True)
    later = []
    for n in spec['nodes']:
        p = os.path.join(root, n['p'])
        t = n['t']
        if t == 'd':
            os.makedirs(p, exist_ok=True)
        elif t == 'f':
            os.makedirs(os.path.dirname(p), exist_ok=True)
            with open(p, 'wb') as f:
                f.write(common.content_bytes(n['c']))
            if n.get('mt') is not None:
                later.append((p, n['mt']))
            if n.get('mode') is not None:
                os.chmod(p, n['mode'])
        elif t == 'l':
            os.makedirs(os.path.dirname(p), exist_ok=True)
            os.symlink(n['to'], p)
        elif t == 'fifo':
            os.mkfifo(p)
        elif t == 'sock':
            s = socket.socket(socket.AF_UNIX)
            try:
                # AF_UNIX paths are short: bind relative to the directory
                cwd = os.getcwd()
                os.chdir(os.path.dirname(p))
                try:
                    s.bind(os.path.basename(p))
                finally:
                    os.chdir(cwd)
            except OSError:
                os.mkfifo(p)
            finally:
                s.close()
    for p, mt in later:
        os.utime(p, (mt, mt))


def snapshot(root, with_mtime=True):
    """path -> (type, sha256|target, size, mtime_ns, mode, ino) for everything."""
    import hashlib
    out = {}
    for dp, dn, fn in os.walk(root, followlinks=False):
        for name in dn + fn:
            p = os.path.join(dp, name)
            rel = os.path.relpath(p, root)
            try:
                st = os.lstat(p)
            except OSError:
                continue
            if stat.S_ISLNK(st.st_mode):
                out[rel] = ('l', os.readlink(p))
            elif stat.S_ISDIR(st.st_mode):
                out[rel] = ('d', stat.S_IMODE(st.st_mode))
            elif stat.S_ISREG(st.st_mode):
                try:
                    with open(p, 'rb') as f:
                        h = hashlib.sha256(f.read()).hexdigest()
                except OSError:
                    h = 'unreadable'
                out[rel] = ('f', h, st.st_size,
                            st.st_mtime_ns if with_mtime else 0,
                            stat.S_IMODE(st.st_mode), st.st_ino)
            else:
                out[rel] = ('o', stat.S_IFMT(st.st_mode))
    return out
