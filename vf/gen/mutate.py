"""Mutations of a consistent (tree, layout) pair.  Every mutation is recorded
as primitive, fully materialised file-system operations (for replay) plus a
bookkeeping record (class, path) used for the oracle self-check."""
import os
import shutil

from vf import common
from vf.gen import tree as gtree
from vf.model import mtext

FS_CLASSES = ['content', 'size', 'delete', 'retype', 'stray', 'touch', 'stray-lookalike',
              'stray-special', 'stray-manifest-name', 'hidden-listed']
MAN_CLASSES = ['m-digest', 'm-size', 'm-drop', 'm-ghost', 'm-conflict',
               'm-disjoint-wrong', 'm-unsupported', 'm-chain', 'm-dup-ignore',
               'm-compatible-dup', 'm-dup-manifest-entry', 'm-manifest-dup-wrong',
               'm-dist-twin', 'm-digest-shared', 'm-digest-shared', 'm-upper-digest']
ODD_CLASSES = ['file-over-dir', 'm-misc-dup', 'm-ignore-file', 'm-entry-for-dir',
               'm-manifest-data-twin']
UNREG_CLASSES = ['unreg-valid', 'unreg-stale', 'unreg-invalid', 'unreg-badcompressed']


def apply_op(root, op):
    p = os.path.join(root, op['p'])
    k = op['op']
    if k == 'write':
        if os.path.isdir(p) and not os.path.islink(p):
            shutil.rmtree(p)
        elif os.path.lexists(p):
            os.unlink(p)
        os.makedirs(os.path.dirname(p), exist_ok=True)
        with open(p, 'wb') as f:
            f.write(common.content_bytes(op['c']))
    elif k == 'unlink':
        if os.path.isdir(p) and not os.path.islink(p):
            shutil.rmtree(p)
        elif os.path.lexists(p):
            os.unlink(p)
    elif k == 'mkdir':
        os.makedirs(p, exist_ok=True)
    elif k == 'symlink':
        os.symlink(op['to'], p)
    elif k == 'mkfifo':
        os.mkfifo(p)
    elif k == 'mksock':
        import socket
        old = os.getcwd()
        sk = socket.socket(socket.AF_UNIX)
        try:
            # (sun_path is short: bind by the bare name from inside the directory)
            os.chdir(os.path.dirname(p))
            sk.bind(os.path.basename(p))
        finally:
            os.chdir(old)
            sk.close()
    elif k == 'utime':
        os.utime(p, (op['mt'], op['mt']))
    elif k == 'chmod':
        os.chmod(p, op['mode'])
    else:
        raise ValueError(k)


def apply_ops(root, ops):
    for op in ops:
        apply_op(root, op)


def _real_listed(root, info):
    out = []
    for f in info['listed']:
        p = os.path.join(root, f)
        if os.path.isfile(p) and not os.path.islink(p) and \
                not any(c.startswith('.') for c in f.split('/')) and \
                not any(mtext.comp_prefix(f, v) for v in info['via_link']):
            out.append(f)
    return sorted(out)


def _file_entries(layout, info, f):
    """[(mpath, entry)] of the file entries naming tree path @f."""
    out = []
    for mpath in sorted(set(info['listed'].get(f, []))):
        mdir = os.path.dirname(mpath)
        for e in layout['mans'][mpath]['entries']:
            if e['tag'] in mtext.FILE_TAGS and e.get('_auto') is None and \
                    mtext.full_path(mdir, e) == f:
                out.append((mpath, e))
    return out


def mutate(rng, root, layout, info, klass):
    """Apply one mutation of class @klass.  Returns (ops, record) or None if not
    applicable.  Manifest-side mutations edit @layout in place (caller re-renders
    and snapshots the Manifest files)."""
    files = _real_listed(root, info)
    ops = []
    rec = {'class': klass}
    if klass in ('content', 'size', 'delete', 'retype', 'touch'):
        if not files:
            return None
        f = rng.choice(files)
        rec['path'] = f
        p = os.path.join(root, f)
        with open(p, 'rb') as fh:
            data = fh.read()
        if klass == 'content':
            spec = gtree.same_size_other(rng, common.spec_of(data))
            if spec is None:
                return None
            st = os.stat(p)
            ops.append({'op': 'write', 'p': f, 'c': spec})
            if rng.random() < 0.7:
                # keep the old mtime: only the digest can tell
                ops.append({'op': 'utime', 'p': f, 'mt': st.st_mtime})
            rec['has_hash'] = any(e['sums'] for m, e in _file_entries(layout, info, f))
        elif klass == 'size':
            nd = data + b'x' if rng.random() < 0.7 or not data else data[:-1]
            ops.append({'op': 'write', 'p': f, 'c': common.spec_of(nd)})
        elif klass == 'delete':
            ops.append({'op': 'unlink', 'p': f})
        elif klass == 'retype':
            how = rng.choice(['dir', 'fifo', 'linkdir', 'dangling', 'dir-with-file'])
            rec['how'] = how
            ops.append({'op': 'unlink', 'p': f})
            if how == 'dir':
                ops.append({'op': 'mkdir', 'p': f})
            elif how == 'dir-with-file':
                ops.append({'op': 'mkdir', 'p': f})
                ops.append({'op': 'write', 'p': f + '/inside', 'c': {'t': 'x'}})
            elif how == 'fifo':
                ops.append({'op': 'mkfifo', 'p': f})
            elif how == 'linkdir':
                ops.append({'op': 'symlink', 'p': f, 'to': '.'})
                rec['loop'] = True
            else:
                ops.append({'op': 'symlink', 'p': f, 'to': 'nowhere-at-all'})
        else:
            st = os.stat(p)
            ops.append({'op': 'utime', 'p': f, 'mt': st.st_mtime + rng.choice([-50, 7, 500])})
    elif klass == 'rmdir-ignore-first':
        # a whole directory of listed files disappears, and the first thing its
        # Manifest says about that directory is an IGNORE for something inside it
        cands = []
        for f in files:
            d = os.path.dirname(f)
            if not d or d in info['mdirs'] or os.path.islink(os.path.join(root, d)) \
                    or any(c.startswith('.') for c in d.split('/')) \
                    or any(mtext.comp_prefix(v, d) or mtext.comp_prefix(d, v)
                           for v in info['via_link']) \
                    or any(mtext.comp_prefix(md, d) for md in info['mdirs'] if md) \
                    or any(mtext.comp_prefix(ig, d) or mtext.comp_prefix(d, ig)
                           for ig in info['ignores']):
                continue
            ents = _file_entries(layout, info, f)
            if len(ents) == 1:
                cands.append((f, d, ents[0][0]))
        if not cands:
            return None
        f, d, mpath = rng.choice(sorted(cands))
        rec['path'] = f
        mdir = os.path.dirname(mpath)
        rel = os.path.relpath(d, mdir) if mdir else d
        layout['mans'][mpath]['entries'].insert(
            0, {'tag': 'IGNORE', 'path': rel + '/' + rng.choice(['cache', 'zz-tmp', '0'])})
        ops.append({'op': 'unlink', 'p': d})
    elif klass == 'hidden-listed':
        # a hidden file that a Manifest lists anyway is altered (content or size) or
        # replaced by a FIFO; entries are verified wherever they point
        cands = sorted(
            f for f in info['listed']
            if any(c.startswith('.') for c in f.split('/'))
            and os.path.isfile(os.path.join(root, f))
            and not os.path.islink(os.path.join(root, f))
            and not any(mtext.comp_prefix(f, v) for v in info['via_link'])
            and any(e['sums'] for m, e in _file_entries(layout, info, f)))
        if not cands:
            return None
        f = rng.choice(cands)
        rec['path'] = f
        with open(os.path.join(root, f), 'rb') as fh:
            data = fh.read()
        how = rng.choice(['content', 'size', 'fifo'])
        rec['how'] = how
        if how == 'content':
            spec = gtree.same_size_other(rng, common.spec_of(data))
            if spec is None:
                how = 'size'
            else:
                ops.append({'op': 'write', 'p': f, 'c': spec})
        if how == 'size':
            ops.append({'op': 'write', 'p': f, 'c': common.spec_of(data + b'!')})
        elif how == 'fifo':
            ops.append({'op': 'unlink', 'p': f})
            ops.append({'op': 'mkfifo', 'p': f})
    elif klass in ('stray', 'stray-lookalike', 'stray-special', 'stray-socket',
                   'stray-manifest-name'):
        dirs = [d for d in info['dirs']
                if os.path.isdir(os.path.join(root, d))
                and not any(mtext.comp_prefix(d, ig) for ig in info['ignores'])
                and not any(mtext.comp_prefix(d, v) for v in info['via_link'])
                and not any(c.startswith('.') for c in d.split('/') if d)]
        if not dirs:
            return None
        if klass == 'stray-lookalike':
            if not info['ignores']:
                return None
            ig = rng.choice(info['ignores'])
            f = ig + rng.choice(['.bar', 'x', ' ', '-1', '~'])
            if f.endswith('/'):
                return None
            if not os.path.isdir(os.path.join(root, os.path.dirname(f))):
                return None
            if any(mtext.comp_prefix(os.path.dirname(f), v) for v in info['via_link']):
                return None
            if any(mtext.comp_prefix(os.path.dirname(f), i2) for i2 in info['ignores']):
                return None
        elif klass == 'stray-manifest-name':
            # an unlisted file that merely carries the name of a Manifest
            d = rng.choice(dirs)
            nm = rng.choice(['Manifest', 'Manifest', 'Manifest.gz', 'Manifest.xz'])
            f = nm if not d else d + '/' + nm
            if f == layout['top']:
                return None
        else:
            d = rng.choice(dirs)
            nm = 'stray' + gtree.rand_name(rng, 0.2)
            if klass == 'stray' and rng.random() < 0.12:
                # a name that is not UTF-8 on disk (seen as surrogate escapes): it
                # cannot be listed by a Manifest of this tree, so it is a stray file
                nm = 'stray-' + rng.choice(['\udcff', '\udce9t\udce9', 'a\udc80b']) + '.sh'
            f = nm if not d else d + '/' + nm
        if os.path.lexists(os.path.join(root, f)):
            return None
        rec['path'] = f
        if klass in ('stray-special', 'stray-socket'):
            # a FIFO, or a UNIX socket (which cannot even be opened)
            ops.append({'op': 'mksock' if (rng.random() < 0.5 or klass == 'stray-socket')
                        and len(os.path.basename(f).encode('utf8')) < 90
                        else 'mkfifo', 'p': f})
        elif klass == 'stray-manifest-name':
            sfx = mtext.suffix_of(f)
            # (a plain file named Manifest holds text: non-UTF-8 bytes there are
            # outside the domain of the properties)
            txt = rng.choice([b'', b'DATA nothing 0\n', b'garbage \x01 text\n'] +
                             ([b'garbage \x00\xff'] if sfx else []))
            if sfx and rng.random() < 0.7:
                txt = mtext.compress(sfx, txt)
            ops.append({'op': 'write', 'p': f, 'c': common.spec_of(txt)})
        else:
            ops.append({'op': 'write', 'p': f, 'c': gtree.rand_content(rng)})
    elif klass == 'file-over-dir':
        cands = sorted({os.path.dirname(f) for f in files if os.path.dirname(f)})
        cands = [d for d in cands if d not in info['mdirs']
                 and not any(mtext.comp_prefix(m, d) for m in info['mdirs'] if m)]
        if not cands:
            return None
        d = rng.choice(cands)
        rec['path'] = d
        ops.append({'op': 'unlink', 'p': d})
        ops.append({'op': 'write', 'p': d, 'c': {'t': 'now a file'}})
    # ---------------------------------------------------------- Manifest side
    elif klass in ('m-digest', 'm-size', 'm-drop', 'm-conflict', 'm-disjoint-wrong',
                   'm-unsupported', 'm-misc-dup', 'm-ignore-file',
                   'm-compatible-dup'):
        cands = [f for f in files if _file_entries(layout, info, f)]
        if not cands:
            return None
        f = rng.choice(cands)
        rec['path'] = f
        mpath, e = rng.choice(_file_entries(layout, info, f))
        ents = layout['mans'][mpath]['entries']
        if klass == 'm-digest':
            if not e['sums']:
                return None
            h = rng.choice(sorted(e['sums']))
            v = e['sums'][h]
            i = rng.randrange(len(v))
            e['sums'][h] = v[:i] + ('0' if v[i] != '0' else '1') + v[i + 1:]
        elif klass == 'm-size':
            e['size'] = e['size'] + rng.choice([1, 10]) if rng.random() < 0.7 \
                else max(0, e['size'] - 1)
            if e['size'] == os.path.getsize(os.path.join(root, f)):
                e['size'] += 1
        elif klass == 'm-drop':
            for mp, ee in _file_entries(layout, info, f):
                layout['mans'][mp]['entries'].remove(ee)
        elif klass == 'm-conflict':
            dup = dict(e, sums=dict(e['sums']))
            if dup['sums'] and rng.random() < 0.5:
                h = rng.choice(sorted(dup['sums']))
                dup['sums'][h] = dup['sums'][h][:-1] + \
                    ('0' if dup['sums'][h][-1] != '0' else '1')
                rec['conflict'] = 'digest'
            else:
                dup['size'] += 1
                rec['conflict'] = 'size'
            ents.insert(rng.randrange(len(ents) + 1), dup)
        elif klass == 'm-disjoint-wrong':
            other = [h for h in mtext.supported_hashes() if h not in e['sums']]
            if not other:
                return None
            h = rng.choice(other)
            with open(os.path.join(root, f), 'rb') as fh:
                good = mtext.digest(h, fh.read())
            bad = good[:-1] + ('0' if good[-1] != '0' else '1')
            dup = dict(e, sums={h: bad})
            ents.insert(rng.randrange(len(ents) + 1), dup)
        elif klass == 'm-compatible-dup':
            other = [h for h in mtext.supported_hashes() if h not in e['sums']]
            with open(os.path.join(root, f), 'rb') as fh:
                data = fh.read()
            mine = [h for h in sorted(e['sums']) if h in mtext.supported_hashes()]
            hs = rng.choice([mine, other[:1], mine[:1] + other[:1]])
            dup = dict(e, sums=mtext.digests(hs, data))
            ents.insert(rng.randrange(len(ents) + 1), dup)
        elif klass == 'm-unsupported':
            e['sums'][rng.choice(['WHIRLPOOL', 'FOO', 'SHA2'])] = 'ab' * 20
        elif klass == 'm-misc-dup':
            if e['tag'] not in ('DATA',):
                return None
            dup = dict(e, sums=dict(e['sums']), tag='MISC')
            ents.append(dup)
        elif klass == 'm-ignore-file':
            ents.append({'tag': 'IGNORE', 'path': e['path'] if e['tag'] != 'AUX'
                         else 'files/' + e['path']})
    elif klass == 'm-ghost':
        mpath = rng.choice(sorted(layout['mans']))
        mdir = os.path.dirname(mpath)
        nm = 'ghost' + gtree.rand_name(rng, 0.2)
        sub = rng.choice(['', 'nodir/', 'no/such/'])
        full = (mdir + '/' if mdir else '') + sub + nm
        if os.path.lexists(os.path.join(root, full)):
            return None
        rec['path'] = full
        layout['mans'][mpath]['entries'].append(
            mtext.file_entry('DATA', sub + nm, b'abc', ['SHA256']))
    elif klass == 'm-entry-for-dir':
        dirs = [d for d in info['dirs'] if d and d not in info['mdirs']
                and os.path.isdir(os.path.join(root, d))
                and not any(mtext.comp_prefix(d, v) for v in info['via_link'])
                and not any(mtext.comp_prefix(m, d) for m in info['mdirs'] if m)
                and not any(c.startswith('.') for c in d.split('/'))]
        if not dirs:
            return None
        d = rng.choice(dirs)
        rec['path'] = d
        layout['mans'][layout['top']]['entries'].append(
            mtext.file_entry('DATA', d, b'', ['MD5']))
    elif klass == 'm-dup-manifest-entry':
        # the same sub-Manifest registered twice (same or other covering Manifest)
        cands = [(m, e) for m, md in layout['mans'].items()
                 for e in md['entries'] if e['tag'] == 'MANIFEST'
                 and e.get('_auto') is not None]
        if not cands:
            return None
        m, e = rng.choice(cands)
        dup = dict(e, _auto=list(e['_auto']) if rng.random() < 0.6
                   else [rng.choice(mtext.supported_hashes())])
        layout['mans'][m]['entries'].append(dup)
        rec['path'] = mtext.full_path(os.path.dirname(m), e)
    elif klass == 'm-digest-shared':
        # a file listed by several agreeing entries with overlapping hash sets: a hash
        # they share gets the same wrong value in all of them (the entries still agree
        # with each other, none of them with the file)
        cands = []
        for f in files:
            fes = _file_entries(layout, info, f)
            if len(fes) >= 2:
                shared = set(fes[0][1]['sums'])
                for _, e in fes[1:]:
                    shared &= set(e['sums'])
                if shared:
                    cands.append((f, fes, sorted(shared)))
        if not cands:
            return None
        f, fes, shared = rng.choice(cands)
        h = rng.choice(shared)
        v = fes[0][1]['sums'][h]
        i = rng.randrange(len(v))
        bad = v[:i] + ('0' if v[i] != '0' else '1') + v[i + 1:]
        for _, e in fes:
            e['sums'][h] = bad
        rec['path'] = f
    elif klass == 'm-upper-digest':
        # a correct entry whose digests are written in upper-case hex (as some other
        # tools do): to gemato, which compares the text, that is another value
        cands = [f for f in files if any(e['sums'] and any(
            c in 'abcdef' for v in e['sums'].values() for c in v)
            for _, e in _file_entries(layout, info, f))]
        if not cands:
            return None
        f = rng.choice(cands)
        for _, e in _file_entries(layout, info, f):
            e['sums'] = {k: v.upper() for k, v in e['sums'].items()}
            rec['hashes'] = sorted(e['sums'])
        rec['path'] = f
    elif klass == 'm-dist-same-name':
        # a distfile called exactly like a file that the same Manifest lists (the
        # unpacked-next-to-its-tarball situation): DIST and DATA are different things
        cands = []
        for f in files:
            for mp, e in _file_entries(layout, info, f):
                if '/' not in e['path'] and e['tag'] != 'AUX':
                    cands.append((f, mp, e))
        if not cands:
            return None
        f, mp, e = rng.choice(cands)
        layout['mans'][mp]['entries'].insert(
            rng.randrange(len(layout['mans'][mp]['entries']) + 1),
            {'tag': 'DIST', 'path': e['path'], 'size': 4242,
             'sums': {'SHA512': '%0128x' % rng.getrandbits(512)}})
        rec['path'] = f
    elif klass == 'm-dist-twin':
        # two DIST entries with one name but different size / digests in one Manifest
        m = rng.choice(sorted(layout['mans']))
        ents = layout['mans'][m]['entries']
        name = 'twin-%d.tar.gz' % rng.randrange(100)
        bits = {'SHA256': 256, 'SHA512': 512, 'BLAKE2B': 512, 'MD5': 128}
        shared = {h: '%0*x' % (bits[h] // 4, rng.getrandbits(bits[h])) for h in bits}
        mixed = rng.random() < 0.5
        for k in range(rng.choice([2, 2, 3])):
            if mixed:
                # twins left behind by a hash migration: different hash sets, the
                # hashes they share mostly agree, sizes mostly equal
                hs = rng.choice([['SHA256'], ['SHA512'], ['SHA256', 'SHA512'],
                                 ['BLAKE2B', 'SHA512'], ['MD5', 'SHA256', 'SHA512']])
                sums = {h: (shared[h] if rng.random() < 0.8 else
                            '%0*x' % (bits[h] // 4, rng.getrandbits(bits[h])))
                        for h in hs}
                size = 100 + (rng.randrange(3) if rng.random() < 0.2 else 0)
            else:
                sums = {'SHA256': '%064x' % rng.getrandbits(256)}
                size = 100 + rng.randrange(3)
            ents.insert(rng.randrange(len(ents) + 1),
                        {'tag': 'DIST', 'path': name, 'size': size, 'sums': sums})
        rec['path'] = name
    elif klass == 'm-manifest-data-twin':
        # a sub-Manifest additionally listed by a (correct) DATA/MISC entry next to its
        # MANIFEST entry (the test-suite's DuplicateManifestAsDataEntryLayout)
        cands = [(m, e) for m, md in layout['mans'].items()
                 for e in md['entries'] if e['tag'] == 'MANIFEST'
                 and e.get('_auto') is not None]
        if not cands:
            return None
        m, e = rng.choice(cands)
        dup = dict(e, tag=rng.choice(['DATA', 'DATA', 'MISC']), _auto=list(e['_auto']))
        if rng.random() < 0.5:
            layout['mans'][m]['entries'].append(dup)
        else:
            layout['mans'][m]['entries'].insert(0, dup)
        rec['path'] = mtext.full_path(os.path.dirname(m), e)
    elif klass == 'm-manifest-as-data-only':
        # a sub-Manifest that its parent lists, correctly, but with a DATA entry
        # instead of a MANIFEST one (legal; verification treats it as a file)
        cands = [(m, e) for m, md in layout['mans'].items()
                 for e in md['entries'] if e['tag'] == 'MANIFEST'
                 and e.get('_auto') is not None
                 and os.path.dirname(mtext.full_path(os.path.dirname(m), e))
                 != os.path.dirname(m)
                 and os.path.basename(e['path']) in
                 ['Manifest'] + ['Manifest.' + x for x in mtext.SUFFIXES]]
        if not cands:
            return None
        m, e = rng.choice(cands)
        e['tag'] = 'DATA'
        rec['path'] = mtext.full_path(os.path.dirname(m), e)
    elif klass == 'm-compatible-dup-across':
        # a file listed, correctly, by its own Manifest and by a Manifest further up,
        # with disjoint (or equal) hash sets - what a hash migration of the upper
        # Manifest leaves behind; rec['union'] is the union of the two hash sets
        cands = []
        for f in files:
            for mpath, e in _file_entries(layout, info, f):
                up = layout['mans'][mpath]['parent']
                if up is None or e['tag'] == 'AUX' or not e['sums']:
                    continue
                if os.path.dirname(up) == os.path.dirname(mpath):
                    continue
                cands.append((f, mpath, e, up))
        if not cands:
            return None
        f, mpath, e, up = rng.choice(cands)
        updir = os.path.dirname(up)
        if updir and not mtext.comp_prefix(f, updir):
            return None
        with open(os.path.join(root, f), 'rb') as fh:
            data = fh.read()
        mine = [h for h in sorted(e['sums']) if h in mtext.supported_hashes()]
        other = [h for h in mtext.supported_hashes() if h not in e['sums']]
        rng.shuffle(other)
        hs = rng.choice([other[:1], other[:1], other[:2], mine])
        if not hs or len(mine) != len(e['sums']):
            return None
        rel = f[len(updir) + 1:] if updir else f
        dup = {'tag': 'DATA', 'path': rel, 'size': len(data),
               'sums': mtext.digests(hs, data)}
        ents = layout['mans'][up]['entries']
        ents.insert(rng.randrange(len(ents) + 1), dup)
        rec['path'] = f
        rec['union'] = sorted(set(mine) | set(hs))
    elif klass == 'm-manifest-data-in-between':
        # sub-Manifest X registered by a MANIFEST entry in the top-level Manifest while
        # its nearer parent A lists it, correctly, as a plain DATA / MISC file (legal:
        # X is a Manifest of the tree through the top-level entry and a file to A)
        cands = []
        for x, xd in layout['mans'].items():
            a = xd['parent']
            if a is None or a == layout['top'] or layout['mans'][a]['parent'] is None:
                continue
            if os.path.dirname(x) == os.path.dirname(a):
                continue
            cands.append((x, a))
        if not cands:
            return None
        x, a = rng.choice(sorted(cands))
        adir = os.path.dirname(a)
        ae = [e for e in layout['mans'][a]['entries'] if e['tag'] == 'MANIFEST'
              and e.get('_auto') is not None and mtext.full_path(adir, e) == x]
        if not ae:
            return None
        ae = ae[0]
        ae['tag'] = rng.choice(['DATA', 'DATA', 'MISC'])
        top_entries = layout['mans'][layout['top']]['entries']
        top_entries.insert(rng.randrange(len(top_entries) + 1),
                           {'tag': 'MANIFEST', 'path': x, 'size': 0, 'sums': {},
                            '_auto': list(ae['_auto'])})
        rec['path'] = x
    elif klass == 'm-manifest-dup-wrong':
        # sub-Manifest X registered twice: correctly (hash set H1) in the top-level
        # Manifest, through which it gets loaded, and wrongly (disjoint hash set) in
        # its nearer parent A, whose entry is then never used for loading
        cands = []
        for x, xd in layout['mans'].items():
            a = xd['parent']
            if a is None or a == layout['top'] or layout['mans'][a]['parent'] is None:
                continue
            if os.path.dirname(x) == os.path.dirname(a):
                continue
            cands.append((x, a))
        if not cands:
            return None
        x, a = rng.choice(sorted(cands))
        adir = os.path.dirname(a)
        ae = [e for e in layout['mans'][a]['entries'] if e['tag'] == 'MANIFEST'
              and e.get('_auto') is not None and mtext.full_path(adir, e) == x]
        if not ae:
            return None
        ae = ae[0]
        h1 = list(ae['_auto'])
        other = [h for h in mtext.supported_hashes() if h not in h1]
        if not other:
            return None
        h2 = rng.choice(other)
        with open(os.path.join(root, x), 'rb') as fh:
            raw = fh.read()
        good = mtext.digest(h2, raw)
        ae.pop('_auto')
        ae['size'] = len(raw)
        ae['sums'] = {h2: good[:-1] + ('0' if good[-1] != '0' else '1')}
        layout['mans'][layout['top']]['entries'].insert(
            0, {'tag': 'MANIFEST', 'path': x, 'size': 0, 'sums': {}, '_auto': h1})
        rec['path'] = x
        rec['frozen'] = True
    elif klass == 'm-ignore-missing-parent':
        # an IGNORE for something inside a directory that does not exist here (a path
        # of several components): never an offence, whatever else is missing
        m = rng.choice(sorted(layout['mans']))
        layout['mans'][m]['entries'].insert(
            rng.randrange(len(layout['mans'][m]['entries']) + 1),
            {'tag': 'IGNORE', 'path': rng.choice(['no-such-dir/cache', 'var/tmp/portage',
                                                  'local/x/y'])})
        rec['path'] = None
    elif klass == 'm-dup-ignore':
        cands = [(m, e) for m, md in layout['mans'].items()
                 for e in md['entries'] if e['tag'] == 'IGNORE']
        subs = sorted(m for m in layout['mans'] if os.path.dirname(m)
                      and not any(c.startswith('.') for c in m.split('/')))
        if subs and rng.random() < 0.5:
            # the same full path IGNOREd on two levels of the tree (harmless as well)
            m2 = rng.choice(subs)
            name = 'dup-ignored-%d' % rng.randrange(100)
            layout['mans'][m2]['entries'].append({'tag': 'IGNORE', 'path': name})
            tops = layout['mans'][layout['top']]['entries']
            tops.insert(rng.randrange(len(tops) + 1),
                        {'tag': 'IGNORE', 'path': os.path.dirname(m2) + '/' + name})
        elif cands:
            m, e = rng.choice(cands)
            layout['mans'][m]['entries'].append(dict(e))
        else:
            for _ in range(2):
                layout['mans'][layout['top']]['entries'].append(
                    {'tag': 'IGNORE', 'path': 'dup-ignored'})
        rec['path'] = None
    elif klass in UNREG_CLASSES:
        dirs = [d for d in info['dirs'] if d and d not in info['mdirs']
                and os.path.isdir(os.path.join(root, d))
                and not os.path.islink(os.path.join(root, d))
                and not any(mtext.comp_prefix(d, v) for v in info['via_link'])
                and not any(mtext.comp_prefix(d, ig) for ig in info['ignores'])
                and not any(c.startswith('.') for c in d.split('/'))]
        if not dirs:
            return None
        d = rng.choice(dirs)
        fmt = rng.choice(['plain', 'gz', 'bz2', 'lzma', 'xz'])
        if klass == 'unreg-badcompressed' and fmt == 'plain':
            fmt = 'gz'
        name = 'Manifest' if fmt == 'plain' else 'Manifest.' + fmt
        f = d + '/' + name
        if os.path.lexists(os.path.join(root, f)):
            return None
        rec['path'] = f
        if klass in ('unreg-valid', 'unreg-stale'):
            ents = []
            for x in sorted(os.listdir(os.path.join(root, d))):
                ap = os.path.join(root, d, x)
                try:
                    x.encode('utf8')
                except UnicodeEncodeError:
                    continue        # (a name that is not UTF-8 cannot be listed)
                if os.path.isfile(ap) and not os.path.islink(ap) and not x.startswith('.'):
                    with open(ap, 'rb') as fh:
                        data = fh.read()
                    if klass == 'unreg-stale':
                        data += b'!'
                    ents.append(mtext.file_entry('DATA', x, data,
                                                 [rng.choice(mtext.supported_hashes())]))
            if rng.random() < 0.3:
                ents.append({'tag': 'DIST', 'path': 'unreg-dist.tar', 'size': 3,
                             'sums': {'MD5': 'ab' * 16}})
            raw = mtext.compress(fmt, mtext.render(ents).encode('utf8'))
        elif klass == 'unreg-invalid':
            raw = mtext.compress(fmt, rng.choice([b'this is not a Manifest\n',
                                                  b'DATA\n', b'DATA x notanumber\n']))
        else:
            how = rng.choice(['garbage', 'truncated', 'corrupt-body', 'corrupt-tail'])
            good = mtext.compress(fmt, b'DATA a 0\n' * 50)
            if how == 'garbage':
                raw = b'certainly not compressed data \x00\x01\x02'
            elif how == 'truncated':
                raw = good[:rng.randrange(1, len(good))]
            elif how == 'corrupt-body':
                # intact header, damaged compressed stream
                k = rng.randrange(10, max(11, len(good) - 12))
                raw = good[:k] + b'\xff' * min(10, len(good) - k) + good[k + 10:]
            else:
                raw = good[:-4] + bytes(b ^ 0x5a for b in good[-4:])
            rec['how'] = how
        ops.append({'op': 'write', 'p': f, 'c': common.spec_of(raw)})
    elif klass == 'm-chain':
        subs = [m for m, md in layout['mans'].items() if md['parent'] is not None]
        if not subs:
            return None
        m = rng.choice(subs)
        rec['path'] = m
        rec['chain'] = True
        p = os.path.join(root, m)
        with open(p, 'rb') as fh:
            raw = fh.read()
        # append an entry to the (decompressed) text and re-compress; parent not told
        txt = mtext.decompress_named(os.path.basename(m), raw) + b'IGNORE injected\n'
        new = mtext.compress(layout['mans'][m]['fmt'], txt)
        ops.append({'op': 'write', 'p': m, 'c': common.spec_of(new), 'after_render': 1})
    else:
        raise ValueError(klass)
    for op in ops:
        if not op.get('after_render'):
            apply_op(root, op)
    return ops, rec
