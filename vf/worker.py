"""Worker entry point:  python -m vf.worker <check> <tier> <seed> <units.json> <out.json>"""
import sys

from vf import harness

if __name__ == '__main__':
    sys.exit(harness.worker_main(sys.argv[1:]))
