"""Runtime contracts on gemato's pure helpers, attached from outside.

icontract (installed into /verif/.deps by setup / lazily) is the backend; if it
cannot be imported a tiny built-in wrapper with the same semantics is used and
`contracts_backend` in the evidence says so.  Conditions *record* a violation
through the worker's Ctx and return True, so a broken contract never aborts
the execution it observes.  Every condition counts its evaluations
(`contract:<name>` counter); zero evaluations => inconclusive.
"""
import functools
import os
import subprocess
import sys

from vf import common
from vf.model import mtext

DEPS = os.path.join(common.VERIF_DIR, '.deps')


def ensure_deps():
    """Idempotent offline install of icontract beside the repo's interpreter."""
    if os.path.isdir(os.path.join(DEPS, 'icontract')):
        return True
    os.makedirs(DEPS, exist_ok=True)
    try:
        import fcntl
        with open(os.path.join(DEPS, '.lock'), 'w') as lk:
            fcntl.flock(lk, fcntl.LOCK_EX)
            if os.path.isdir(os.path.join(DEPS, 'icontract')):
                return True
            subprocess.run(
                [common.PY, '-m', 'pip', 'install', '-q', '--no-index',
                 '--find-links', '/opt/veriftools/wheels', '--target', DEPS,
                 'icontract'],
                stdout=subprocess.DEVNULL, stderr=subprocess.DEVNULL,
                timeout=300)
    except Exception:
        pass
    return os.path.isdir(os.path.join(DEPS, 'icontract'))


def _icontract():
    if DEPS not in sys.path:
        sys.path.append(DEPS)
    try:
        import icontract
        return icontract
    except Exception:
        return None


class ContractBroken(Exception):
    pass


def ensure(cond):
    """Decorator factory: post-condition `cond(<args by name>, result)`."""
    ic = _icontract()
    if ic is not None:
        return ic.ensure(cond, error=ContractBroken)

    def deco(fn):
        import inspect
        sig = inspect.signature(fn)
        want = list(inspect.signature(cond).parameters)

        @functools.wraps(fn)
        def wrapper(*a, **kw):
            result = fn(*a, **kw)
            ba = sig.bind(*a, **kw)
            ba.apply_defaults()
            vals = dict(ba.arguments)
            vals['result'] = result
            if not cond(**{k: vals[k] for k in want}):
                raise ContractBroken(fn.__name__)
            return result
        return wrapper
    return deco


def backend_name():
    ic = _icontract()
    return 'icontract %s' % getattr(ic, '__version__', '?') if ic else 'builtin'


# ---------------------------------------------------------------- contracts

def install_encoded_path(ctx):
    """ManifestPathEntry.encoded_path: no whitespace / control character in the
    result, and it decodes back (independent decoder) to the path."""
    from gemato import manifest as gm

    def encoded_ok(self, result):
        ctx.counters['contract:encoded_path'] += 1
        bad = [c for c in result if c.isspace() or ord(c) < 0x20
               or 0x7f <= ord(c) <= 0x9f]
        if bad:
            ctx.violation('contract-encoded-path-raw',
                          'encoded_path leaves whitespace/control characters raw',
                          {'kind': 'contract', 'path': self.path},
                          {'result': result})
            return True
        try:
            back = mtext.unesc_path(result)
        except mtext.ReadError as exc:
            ctx.violation('contract-encoded-path-undecodable',
                          'encoded_path result does not decode: %s' % exc,
                          {'kind': 'contract', 'path': self.path},
                          {'result': result})
            return True
        if back != self.path:
            ctx.violation('contract-encoded-path-differs',
                          'encoded_path does not decode back to the path',
                          {'kind': 'contract', 'path': self.path},
                          {'result': result, 'back': back})
        return True

    orig = gm.ManifestPathEntry.encoded_path.fget
    if getattr(orig, '_vf_wrapped', False):
        return
    checked = ensure(encoded_ok)(orig)
    checked._vf_wrapped = True
    gm.ManifestPathEntry.encoded_path = property(checked)
    ctx.extra['contracts_backend'] = {backend_name(): 1}


def _norm_rel(p):
    return (p == '' or not (p.startswith('/') or p.endswith('/')
                            or any(c in ('', '.', '..') for c in p.split('/'))))


def install_path_prefix(ctx):
    """path_starts_with / path_inside_dir == whole-component prefix on
    normalised relative paths; other arguments are counted as skipped."""
    from gemato import util as gu
    import gemato.recursiveloader as rl
    import gemato.manifest as gm

    def starts_ok(path, prefix, result):
        if not (_norm_rel(path) and _norm_rel(prefix)):
            ctx.counters['contract:path_starts_with:skipped'] += 1
            return True
        ctx.counters['contract:path_starts_with'] += 1
        want = mtext.comp_prefix(path, prefix)
        if bool(result) != want:
            ctx.violation('contract-path-starts-with',
                          'path_starts_with(%r, %r) = %r, component-wise prefix '
                          'says %r' % (path, prefix, result, want),
                          {'kind': 'contract', 'path': path, 'prefix': prefix})
        return True

    def inside_ok(path, directory, result):
        if not (_norm_rel(path) and _norm_rel(directory)):
            ctx.counters['contract:path_inside_dir:skipped'] += 1
            return True
        ctx.counters['contract:path_inside_dir'] += 1
        want = path != directory and path != '' and \
            mtext.comp_prefix(path, directory)
        if bool(result) != want:
            ctx.violation('contract-path-inside-dir',
                          'path_inside_dir(%r, %r) = %r, component-wise says %r'
                          % (path, directory, result, want),
                          {'kind': 'contract', 'path': path, 'dir': directory})
        return True

    if getattr(gu.path_starts_with, '_vf_wrapped', False):
        return
    psw = ensure(starts_ok)(gu.path_starts_with)
    psw._vf_wrapped = True
    pid = ensure(inside_ok)(gu.path_inside_dir)
    pid._vf_wrapped = True
    for mod in (gu, rl, gm):
        if hasattr(mod, 'path_starts_with'):
            mod.path_starts_with = psw
        if hasattr(mod, 'path_inside_dir'):
            mod.path_inside_dir = pid
    ctx.extra['contracts_backend'] = {backend_name(): 1}


def install_find_top(ctx):
    """find_top_level_manifest == vf.model.findtop.find_top on every call (also
    the calls the CLI makes in other checks' workloads)."""
    import gemato.find_top_level as ft
    import gemato.cli as gcli
    from vf.model import findtop

    orig = ft.find_top_level_manifest
    if getattr(orig, '_vf_wrapped', False):
        return

    unset = object()

    def wrapper(path='.', allow_xdev=unset, allow_compressed=unset):
        # options the caller leaves out are left out here as well, so that the
        # function's own defaults are what gets exercised; the model uses the
        # documented ones (crossing allowed unless disallowed, compressed Manifests
        # only when explicitly allowed)
        kw = {}
        if allow_xdev is not unset:
            kw['allow_xdev'] = allow_xdev
        else:
            allow_xdev = True
            ctx.counters['contract:find_top:default_xdev'] += 1
        if allow_compressed is not unset:
            kw['allow_compressed'] = allow_compressed
        else:
            allow_compressed = False
        result = orig(path, **kw)
        try:
            res = findtop.find_top(path, allow_xdev, allow_compressed)
        except Exception as exc:
            ctx.counters['contract:find_top:model_error'] += 1
            return result
        if res.unconstrained:
            ctx.counters['contract:find_top:skipped'] += 1
            return result
        ctx.counters['contract:find_top'] += 1
        got = None if result is None else os.path.realpath(result)
        want = {None if a is None else os.path.realpath(a) for a in res.answers}
        if got not in want:
            ctx.violation('contract-find-top',
                          'find_top_level_manifest(%r, allow_xdev=%r, '
                          'allow_compressed=%r) = %r, model says %r' % (
                              path, allow_xdev, allow_compressed, result,
                              sorted(map(str, want))),
                          {'kind': 'contract', 'path': path,
                           'cwd': os.getcwd()},
                          {'levels': res.levels[:8]})
        return result

    wrapper._vf_wrapped = True
    wrapper.__wrapped__ = orig
    ft.find_top_level_manifest = wrapper
    gcli.find_top_level_manifest = wrapper
