"""FsFailpoints: Python-level fault injection at the file-system boundary.

While active, os.open / os.stat / os.lstat / os.fstat / os.scandir /
builtins.open (io.open) are rebound; iterators returned by scandir and file
objects returned by open are proxied so that reads and directory iteration are
failpoints too.  Only calls that concern the watched root (by path, or by a
descriptor opened from such a path) are counted.  Mode 'count' tallies calls per
class; mode 'inject' raises OSError(errno) at the n-th call of one class.
"""
import builtins
import io
import os

CLASSES = ['os.open', 'open', 'os.stat', 'os.lstat', 'os.fstat', 'scandir',
           'scandir-next', 'read', 'text-read']


class Injected(OSError):
    pass


class Failpoints:
    def __init__(self, root, target=None, err=None):
        """@target = (class, n) to fail the n-th (0-based) call of a class."""
        self.root = os.path.realpath(root)
        self.target = target
        self.err = err
        self.counts = dict.fromkeys(CLASSES, 0)
        self.fired = None
        self.fds = set()
        self._saved = {}
        self.log = []

    # ---- helpers
    def _mine(self, path):
        try:
            if isinstance(path, int):
                return path in self.fds
            p = os.fspath(path)
            if isinstance(p, bytes):
                p = os.fsdecode(p)
            ap = os.path.abspath(p)
            return ap == self.root or ap.startswith(self.root + os.sep)
        except Exception:
            return False

    def _hit(self, klass, what):
        n = self.counts[klass]
        self.counts[klass] = n + 1
        if self.target is not None and self.fired is None and \
                self.target == (klass, n):
            self.fired = (klass, n, str(what))
            # a plain OSError(errno, ...) becomes the same subclass a real failure
            # would be (PermissionError, NotADirectoryError, ...)
            exc = OSError(self.err, os.strerror(self.err),
                          what if isinstance(what, str) else None)
            exc._vf_injected = True
            raise exc

    # ---- install / remove
    def __enter__(self):
        me = self
        s = self._saved
        s['os.open'], s['os.stat'], s['os.lstat'] = os.open, os.stat, os.lstat
        s['os.fstat'], s['os.scandir'] = os.fstat, os.scandir
        s['open'], s['io.open'], s['os.close'] = builtins.open, io.open, os.close

        def f_os_open(path, flags, mode=0o777, *, dir_fd=None):
            if dir_fd is None and me._mine(path):
                me._hit('os.open', os.fspath(path))
                fd = s['os.open'](path, flags, mode)
                me.fds.add(fd)
                return fd
            if dir_fd is None:
                return s['os.open'](path, flags, mode)
            return s['os.open'](path, flags, mode, dir_fd=dir_fd)

        def f_os_close(fd):
            me.fds.discard(fd)
            return s['os.close'](fd)

        def f_stat(path, *a, **kw):
            if me._mine(path):
                me._hit('os.fstat' if isinstance(path, int) else 'os.stat', path)
            return s['os.stat'](path, *a, **kw)

        def f_lstat(path, *a, **kw):
            if me._mine(path):
                me._hit('os.lstat', path)
            return s['os.lstat'](path, *a, **kw)

        def f_fstat(fd):
            if me._mine(fd):
                me._hit('os.fstat', fd)
            return s['os.fstat'](fd)

        def f_scandir(path='.'):
            if me._mine(path):
                me._hit('scandir', os.fspath(path))
                return ScandirProxy(me, s['os.scandir'](path), os.fspath(path))
            return s['os.scandir'](path)

        def f_open(file, mode='r', *a, **kw):
            if me._mine(file):
                me._hit('open', file if isinstance(file, int) else os.fspath(file))
                f = s['open'](file, mode, *a, **kw)
                try:
                    me.fds.add(f.fileno())
                except Exception:
                    pass
                if 'w' in mode or 'a' in mode or '+' in mode or 'x' in mode:
                    return f
                return FileProxy(me, f, 'read' if 'b' in mode else 'text-read',
                                 str(file))
            return s['open'](file, mode, *a, **kw)

        os.open, os.stat, os.lstat, os.fstat = f_os_open, f_stat, f_lstat, f_fstat
        os.scandir, os.close = f_scandir, f_os_close
        builtins.open = f_open
        io.open = f_open
        return self

    def __exit__(self, *a):
        s = self._saved
        os.open, os.stat, os.lstat = s['os.open'], s['os.stat'], s['os.lstat']
        os.fstat, os.scandir, os.close = s['os.fstat'], s['os.scandir'], s['os.close']
        builtins.open = s['open']
        io.open = s['io.open']


class ScandirProxy:
    def __init__(self, fp, it, path):
        self._fp, self._it, self._path = fp, it, path

    def __iter__(self):
        return self

    def __next__(self):
        self._fp._hit('scandir-next', self._path)
        return next(self._it)

    def close(self):
        self._it.close()

    def __enter__(self):
        return self

    def __exit__(self, *a):
        self._it.close()


class FileProxy:
    """Wraps a readable file object; every read-like call is a failpoint."""

    def __init__(self, fp, f, klass, name):
        self.__dict__['_fp'] = fp
        self.__dict__['_f'] = f
        self.__dict__['_klass'] = klass
        self.__dict__['_name'] = name

    def _hit(self):
        self._fp._hit(self._klass, self._name)

    def read(self, *a):
        self._hit()
        return self._f.read(*a)

    def read1(self, *a):
        self._hit()
        return self._f.read1(*a)

    def readinto(self, b):
        self._hit()
        return self._f.readinto(b)

    def readinto1(self, b):
        self._hit()
        return self._f.readinto1(b)

    def readline(self, *a):
        self._hit()
        return self._f.readline(*a)

    def readlines(self, *a):
        self._hit()
        return self._f.readlines(*a)

    def __iter__(self):
        return self

    def __next__(self):
        self._hit()
        return next(self._f)

    def __enter__(self):
        self._f.__enter__()
        return self

    def __exit__(self, *a):
        return self._f.__exit__(*a)

    def close(self):
        try:
            self._fp.fds.discard(self._f.fileno())
        except Exception:
            pass
        return self._f.close()

    def __getattr__(self, name):
        return getattr(self._f, name)

    def __setattr__(self, name, value):
        setattr(self._f, name, value)
