"""A private GnuPG home driven by the harness (independent of gemato's own
environment classes): key import, owner trust, clear-signing, and
`gpg --decrypt` as the oracle for "what did gpg authenticate"."""
import os
import shutil
import subprocess
import tempfile

from vf import common


class Home:
    def __init__(self, direct_trust=True, base=None):
        self.dir = tempfile.mkdtemp(prefix='vf-gpg-', dir=base or common.scratch_base())
        os.chmod(self.dir, 0o700)
        with open(os.path.join(self.dir, 'gpg.conf'), 'w') as f:
            if direct_trust:
                f.write('trust-model direct\n')
        with open(os.path.join(self.dir, 'gpg-agent.conf'), 'w') as f:
            f.write('disable-scdaemon\n')

    def env(self):
        e = dict(os.environ)
        e['GNUPGHOME'] = self.dir
        e['TZ'] = 'UTC'
        return e

    def gpg(self, args, data=b'', timeout=120):
        p = subprocess.run(['gpg', '--batch', '--no-tty'] + list(args), input=data,
                           capture_output=True, env=self.env(), timeout=timeout)
        return p.returncode, p.stdout, p.stderr

    def import_key(self, blob):
        rc, out, err = self.gpg(['--import'], blob)
        return rc

    def set_trust(self, fpr, level):
        rc, out, err = self.gpg(['--import-ownertrust'],
                                ('%s:%d:\n' % (fpr, level)).encode())
        return rc

    def clearsign(self, text, keyid=None, extra=()):
        args = list(extra) + ['--clearsign']
        if keyid:
            args += ['--local-user', keyid]
        rc, out, err = self.gpg(args, text.encode('utf8'))
        if rc != 0:
            raise RuntimeError('clearsign failed: %s' % err.decode('utf8', 'replace'))
        return out.decode('utf8')

    def decrypt(self, data):
        """-> (rc, cleartext bytes, status text)"""
        rc, out, err = self.gpg(['--status-fd', '2', '--decrypt'], data)
        return rc, out, err.decode('utf8', 'replace')

    def verify(self, data):
        rc, out, err = self.gpg(['--status-fd', '1', '--verify'], data)
        return rc, out.decode('utf8', 'replace')

    def snapshot(self):
        """content hash + mtime of every file (for 'left untouched' checks)."""
        import hashlib
        snap = {}
        for dp, dn, fn in os.walk(self.dir):
            for f in fn:
                p = os.path.join(dp, f)
                try:
                    st = os.lstat(p)
                    if not os.path.isfile(p):
                        continue
                    with open(p, 'rb') as fh:
                        h = hashlib.sha256(fh.read()).hexdigest()
                    snap[os.path.relpath(p, self.dir)] = (h, st.st_mtime_ns, st.st_size)
                except OSError:
                    pass
        return snap

    def close(self):
        try:
            subprocess.run(['gpgconf', '--kill', 'all'], env=self.env(),
                           capture_output=True, timeout=60)
        except Exception:
            pass
        for _ in range(5):
            shutil.rmtree(self.dir, ignore_errors=True)
            if not os.path.exists(self.dir):
                break

    def __enter__(self):
        return self

    def __exit__(self, *a):
        self.close()
