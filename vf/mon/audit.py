"""WriteAudit: sys.addaudithook based log of every write-intent operation the
interpreter performs (open for writing, rename, remove, mkdir, ...)."""
import os
import sys

_events = []
_installed = False
_enabled = False
WRITE_FLAGS = os.O_WRONLY | os.O_RDWR | os.O_CREAT | os.O_TRUNC | os.O_APPEND
NAMES = {'os.rename', 'os.remove', 'os.mkdir', 'os.rmdir', 'os.chmod', 'os.chown',
         'os.utime', 'os.truncate', 'os.symlink', 'os.link', 'shutil.move',
         'shutil.copyfile', 'shutil.copymode', 'shutil.copystat', 'shutil.copytree',
         'shutil.rmtree', 'os.mkfifo', 'os.mknod'}


def _hook(event, args):
    if not _enabled:
        return
    if event == 'open':
        path, mode, flags = args
        if isinstance(path, int):
            return
        if (mode and any(c in mode for c in 'wax+')) or \
                (isinstance(flags, int) and flags & WRITE_FLAGS):
            _events.append(('open-write', _s(path), mode, flags))
    elif event in NAMES:
        a0 = args[0] if args else None
        if isinstance(a0, int) and not isinstance(a0, bool):
            # descriptor-based call (os.utime(fd), os.chmod(fd), ...): name the file
            try:
                a0 = os.readlink('/proc/self/fd/%d' % a0)
            except OSError:
                pass
            _events.append((event, a0) + tuple(_s(a) for a in args[1:2]))
        else:
            _events.append((event,) + tuple(_s(a) for a in args[:2]))


def _s(p):
    if isinstance(p, bytes):
        return os.fsdecode(p)
    if isinstance(p, (str, int)) or p is None:
        return p
    try:
        return os.fspath(p)
    except TypeError:
        return repr(p)


def install():
    global _installed
    if not _installed:
        sys.addaudithook(_hook)
        _installed = True


class Recording:
    """with Recording(root) as r: ...; r.events -> write-intent events under root"""

    def __init__(self, root):
        self.root = os.path.realpath(root)
        self.events = []

    def __enter__(self):
        global _enabled
        install()
        del _events[:]
        _enabled = True
        return self

    def __exit__(self, *a):
        global _enabled
        _enabled = False
        for ev in _events:
            paths = [p for p in (ev[1:2] if ev[0] == 'open-write' else ev[1:3])
                     if isinstance(p, str)]
            if any(os.path.abspath(p) == self.root
                   or os.path.abspath(p).startswith(self.root + os.sep)
                   for p in paths):
                self.events.append(ev)
        del _events[:]
