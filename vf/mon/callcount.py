"""CallCounter: sys.monitoring PY_START counts for functions defined under the
gemato package of the tree under test (evidence + 'anchor never reached')."""
import os
import sys

from vf import common


class CallCounter:
    TOOL = 4  # a free tool id (0..5); 2 = PROFILER_ID is left to users

    def __init__(self):
        self._counts = {}
        self._prefix = os.path.join(common.REPO, 'gemato') + os.sep
        self._on = False

    def start(self):
        mon = getattr(sys, 'monitoring', None)
        if mon is None:
            return
        try:
            mon.use_tool_id(self.TOOL, 'vf-callcount')
        except ValueError:
            return
        counts = self._counts
        prefix = self._prefix
        DISABLE = mon.DISABLE

        def on_start(code, offset):
            fn = code.co_filename
            if not fn.startswith(prefix):
                return DISABLE
            key = fn[len(prefix):-3] + ':' + code.co_qualname
            counts[key] = counts.get(key, 0) + 1

        mon.register_callback(self.TOOL, mon.events.PY_START, on_start)
        mon.set_events(self.TOOL, mon.events.PY_START)
        self._on = True

    def stop(self):
        if self._on:
            mon = sys.monitoring
            mon.set_events(self.TOOL, 0)
            mon.register_callback(self.TOOL, mon.events.PY_START, None)
            mon.free_tool_id(self.TOOL)
            self._on = False

    def counts(self):
        return dict(self._counts)
