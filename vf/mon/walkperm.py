"""WalkPermuter: wraps os.walk so that dirnames / filenames arrive in a seeded
random order (any order is a legal enumeration order of a directory), counts
the yields (logical step budget) and records the directories visited."""
import os
import random


class BudgetExceeded(Exception):
    pass


class WalkPermuter:
    def __init__(self, seed, budget=None):
        self.rng = random.Random(seed)
        self.budget = budget
        self.yields = 0
        self.dirs = []
        self._orig = None

    def __enter__(self):
        self._orig = os.walk
        orig = self._orig
        me = self

        def walk(top, topdown=True, onerror=None, followlinks=False):
            for dirpath, dirnames, filenames in orig(top, topdown=topdown,
                                                     onerror=onerror,
                                                     followlinks=followlinks):
                me.rng.shuffle(dirnames)
                me.rng.shuffle(filenames)
                me.yields += 1
                me.dirs.append(dirpath)
                if me.budget is not None and me.yields > me.budget:
                    raise BudgetExceeded(dirpath)
                yield dirpath, dirnames, filenames
        os.walk = walk
        return self

    def __exit__(self, *a):
        os.walk = self._orig
