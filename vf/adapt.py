"""Conversions between gemato's entry objects and the model's entry dicts."""
import datetime


def ts_str(dt):
    return '%04d-%02d-%02dT%02d:%02d:%02dZ' % (
        dt.year, dt.month, dt.day, dt.hour, dt.minute, dt.second)


def ts_dt(s):
    y, mo, d = int(s[0:4]), int(s[5:7]), int(s[8:10])
    return datetime.datetime(y, mo, d, int(s[11:13]), int(s[14:16]),
                             int(s[17:19]))


def norm_model(e):
    """Canonical comparable form of a model entry dict."""
    t = e['tag']
    if t == 'TIMESTAMP':
        return (t, e['ts'])
    if t == 'IGNORE':
        return (t, e['path'])
    p = e['path']
    if t == 'AUX':
        p = 'files/' + p
    return (t, p, e['size'], tuple(sorted(e['sums'].items())))


def norm_gemato(e):
    """Canonical comparable form of a gemato entry object."""
    t = e.tag
    if t == 'TIMESTAMP':
        return (t, ts_str(e.ts))
    if t == 'IGNORE':
        return (t, e.path)
    return (t, e.path, e.size, tuple(sorted(e.checksums.items())))


def to_gemato(e):
    from gemato import manifest as gm
    t = e['tag']
    if t == 'TIMESTAMP':
        return gm.ManifestEntryTIMESTAMP(
            ts_dt(e['ts']).replace(microsecond=e.get('us', 0)))
    if t == 'IGNORE':
        return gm.ManifestEntryIGNORE(e['path'])
    return gm.new_manifest_entry(t, e['path'], e['size'], dict(e['sums']))


def exc_key(exc):
    """Mechanism key of an exception: type + innermost frame inside gemato."""
    import traceback
    tb = traceback.extract_tb(exc.__traceback__)
    where = '?'
    for fr in reversed(tb):
        fn = fr.filename.replace('\\', '/')
        if '/gemato/' in fn or '/utils/' in fn:
            where = '%s:%s' % (fn.rsplit('/', 1)[1][:-3], fr.name)
            break
    return '%s@%s' % (type(exc).__name__, where)
