"""Shared plumbing: locating the code under test, scratch space, byte specs.

Nothing in here imports gemato at module level; `use_repo()` does, after
putting the tree under test first on sys.path.
"""
import base64
import hashlib
import json
import os
import random
import shutil
import sys
import tempfile

VERIF_DIR = os.path.dirname(os.path.dirname(os.path.abspath(__file__)))
REPO = os.path.abspath(os.environ.get('VERIF_REPO', '/repo'))
PY = '/venv/bin/python' if os.path.exists('/venv/bin/python') else sys.executable
GUARD = 'GEMATO_VERIF'


def use_repo():
    """Import gemato from the tree under test and make sure it is that one."""
    if sys.path[0] != REPO:
        sys.path.insert(0, REPO)
    import gemato
    src = os.path.abspath(gemato.__file__)
    if not src.startswith(REPO + os.sep):
        raise RuntimeError('gemato imported from %s, not from %s' % (src, REPO))
    return gemato


def scratch_base():
    return os.environ.get('VERIF_SCRATCH') or tempfile.gettempdir()


class Scratch:
    """mkdtemp that is always removed, also for trees with mode-000 members."""

    def __init__(self, prefix='vf-', base=None):
        self.prefix = prefix
        self.base = base

    def __enter__(self):
        self.path = tempfile.mkdtemp(prefix=self.prefix,
                                     dir=self.base or scratch_base())
        return self.path

    def __exit__(self, *a):
        rmtree(self.path)


def rmtree(path):
    def onerr(func, p, exc):
        try:
            os.chmod(os.path.dirname(p), 0o700)
            os.chmod(p, 0o700)
        except OSError:
            pass
        try:
            if os.path.isdir(p) and not os.path.islink(p):
                shutil.rmtree(p, ignore_errors=True)
            else:
                os.unlink(p)
        except OSError:
            pass
    if os.path.lexists(path):
        shutil.rmtree(path, onerror=onerr)


def rng_for(*parts):
    return random.Random(':'.join(str(p) for p in parts))


# ---------------------------------------------------------------- byte specs
# A "content spec" is JSON-able and fully determines a byte string:
#   {"t": "text"}            UTF-8 text
#   {"x": "hex"}             arbitrary bytes
#   {"r": [seed, n]}         n pseudo-random bytes from seed (compact, replayable)
#   {"rep": [byte, n]}       n copies of one byte

def content_bytes(spec):
    if isinstance(spec, (bytes, bytearray)):
        return bytes(spec)
    if 't' in spec:
        return spec['t'].encode('utf8')
    if 'x' in spec:
        return bytes.fromhex(spec['x'])
    if 'r' in spec:
        seed, n = spec['r']
        return random.Random(seed).randbytes(n)
    if 'rep' in spec:
        b, n = spec['rep']
        return bytes([b]) * n
    raise ValueError(spec)


def spec_of(b):
    try:
        t = b.decode('utf8')
        if t.isprintable() or all(c.isprintable() or c in '\n\t' for c in t):
            return {'t': t}
    except UnicodeDecodeError:
        pass
    return {'x': b.hex()}


def case_hash(obj):
    """Stable 64-bit hash of a JSON-able case description."""
    s = json.dumps(obj, sort_keys=True, ensure_ascii=True, default=repr)
    return int.from_bytes(hashlib.blake2b(s.encode('ascii'),
                                          digest_size=8).digest(), 'big')


def jdump(obj):
    return json.dumps(obj, sort_keys=True, ensure_ascii=True, default=repr)


def copy_tree(src, dst):
    """Recursive copy that also reproduces symlinks, FIFOs and sockets (as FIFOs)."""
    import stat as _stat
    os.makedirs(dst, exist_ok=True)
    for name in os.listdir(src):
        a, b = os.path.join(src, name), os.path.join(dst, name)
        st = os.lstat(a)
        if _stat.S_ISLNK(st.st_mode):
            os.symlink(os.readlink(a), b)
        elif _stat.S_ISDIR(st.st_mode):
            copy_tree(a, b)
        elif _stat.S_ISREG(st.st_mode):
            shutil.copy2(a, b)
        else:
            os.mkfifo(b)
