"""MANIFEST.setup_cmd: offline preparation (third-party contract library)."""
import sys

from vf.mon import contracts

if __name__ == '__main__':
    ok = contracts.ensure_deps()
    print('contracts backend:', contracts.backend_name() if ok else 'builtin fallback')
    sys.exit(0)
