"""C16 - tree walks terminate and respect file-system boundaries.

Every small directory shape with every small set of directory symlinks (self,
parent, ancestor, sibling, mutual pairs, chains), with IGNORE on the link or
above it, is materialised; the three real walkers (verify with a lenient
handler, unregistered-Manifest scan, update) run under a logical step budget
(WalkPermuter) and are compared with an independent ancestor-stack exploration
of the same link graph.  A second file system (/dev/shm) is linked in for the
one-file-system half.
"""
import itertools
import os
import stat

from vf import adapt, common
from vf.model import mtext
from vf.mon import walkperm

ID = 'C16'
LEVEL = 'exploration'
RULE = ('loop cases = directory shape (parent vectors, <= 3 dirs quick / 4 thorough; 5-6 '
        'sampled) x subset of <= 2 (quick) / 3 (thorough) directory symlinks among all '
        '(location, target) pairs x IGNORE {none, on a link, on a directory above a '
        'link} x walker {verify-lenient, scan, update} x walk permutation; xdev cases '
        '= link position x {dir link, file link} x {listed, stray} x {ignored, not} x '
        'allow_xdev, incl. a sub-Manifest that is a link to the other file system; pairs '
        '= 2..4 hidden and 2..4 IGNOREd directories next to each other, each holding a '
        'loop or a foreign file system. Non-trivial = at least one symlink; distinct = '
        'the tuple.')
ANCHORS = ['recursiveloader:ManifestRecursiveLoader.assert_directory_verifies',
           'recursiveloader:ManifestRecursiveLoader.load_unregistered_manifests',
           'recursiveloader:ManifestRecursiveLoader.update_entries_for_directory',
           'verify:verify_path', 'verify:update_entry_for_path']
REQUIRED = ['recursiveloader:ManifestRecursiveLoader.load_unregistered_manifests',
            'expect:loop', 'expect:noloop', 'xdev_cases', 'walk_yields', 'pairs_cases',
            'xdev_cli_cases']
ASSUMPTIONS = ['/dev/shm is a file system different from the scratch directory '
               '(checked at run time)',
               'a stray (unlisted) file on another device may be reported as a stray '
               'mismatch instead of the cross-device error in verify mode']

WALKERS = ['verify', 'scan', 'update']
BUDGET = 4000


def shapes(n):
    """Parent vectors: dir i (1..n) has parent in 0..i-1 (0 = root)."""
    return list(itertools.product(*[range(i) for i in range(1, n + 1)]))


def units(tier, seed):
    u = []
    maxn = 3 if tier == 'quick' else 4
    maxl = 2 if tier == 'quick' else 3
    for n in range(1, maxn + 1):
        for sh in shapes(n):
            u.append({'k': 'enum', 'shape': list(sh), 'maxl': maxl})
    for i in range(20 if tier == 'quick' else 1500):
        u.append({'k': 'rand', 'i': i})
    for i in range(40 if tier == 'quick' else 400):
        u.append({'k': 'xdev', 'i': i})
    for i in range(36 if tier == 'quick' else 360):
        u.append({'k': 'pairs', 'i': i})
    for i in range(4 if tier == 'quick' else 16):
        u.append({'k': 'sameino', 'i': i})
    return u


def setup_worker(ctx):
    common.use_repo()
    import logging
    logging.getLogger().setLevel(logging.CRITICAL)


def dir_paths(shape):
    paths = ['']
    for i, par in enumerate(shape):
        nm = 'd%d' % (i + 1)
        paths.append((paths[par] + '/' if paths[par] else '') + nm)
    return paths


def build(root, shape, links, ignore, prefix_names=False, pruned=None):
    """links: [(location index, target index)], ignore: None | ('link', k) |
    ('above', k).  Returns the list of link paths."""
    paths = dir_paths(shape)
    for p in paths:
        os.makedirs(os.path.join(root, p) if p else root, exist_ok=True)
        with open(os.path.join(root, p, 'f') if p else os.path.join(root, 'f'), 'w') as f:
            f.write('data of ' + p)
    lpaths = []
    for k, (loc, tgt) in enumerate(links):
        lp = (paths[loc] + '/' if paths[loc] else '') + 'ln%d' % k
        if prefix_names and tgt != 0 and os.path.dirname(paths[tgt]) == paths[loc]:
            # a link next to its target whose name merely extends the target's name
            # (lib64 -> lib)
            lp = paths[tgt] + '64'
            if os.path.lexists(os.path.join(root, lp)):
                lp = paths[tgt] + '64-%d' % k
        rel = os.path.relpath(os.path.join(root, paths[tgt]) if paths[tgt] else root,
                              os.path.join(root, paths[loc]) if paths[loc] else root)
        os.symlink(rel, os.path.join(root, lp))
        lpaths.append(lp)
    ignores = []
    if ignore is not None:
        how, k = ignore
        if how == 'link':
            ignores.append(lpaths[k])
        elif how == 'below':
            # everything one level below the link is IGNOREd (the link itself is
            # not): the walk cannot descend any further through it
            tgt = links[k][1]
            tabs = os.path.join(root, paths[tgt]) if paths[tgt] else root
            for nm in sorted(os.listdir(tabs)):
                if os.path.isdir(os.path.join(tabs, nm)) and not nm.startswith('.'):
                    ignores.append(lpaths[k] + '/' + nm)
        else:
            loc = links[k][0]
            if paths[loc]:
                ignores.append(paths[loc])
    if pruned:
        # next to every link a directory that the walk prunes: a hidden one, or an
        # IGNOREd one (neither changes where the links lead)
        for loc in sorted({loc for loc, _ in links}):
            base = os.path.join(root, paths[loc]) if paths[loc] else root
            nm = '.cache' if pruned == 'hidden' else 'junk'
            os.makedirs(os.path.join(base, nm), exist_ok=True)
            with open(os.path.join(base, nm, 'x'), 'w') as f:
                f.write('pruned')
            if pruned == 'ignored':
                ignores.append((paths[loc] + '/' if paths[loc] else '') + nm)
    return paths, lpaths, ignores


def explore(root, ignores):
    """Independent walk with an explicit ancestor stack.  Returns (loop found?,
    visible file paths, number of directories visited)."""
    files = []
    state = {'loop': False, 'dirs': 0}

    def walk(absd, rel, stack):
        st = os.stat(absd)
        key = (st.st_dev, st.st_ino)
        if key in stack:
            state['loop'] = True
            return
        state['dirs'] += 1
        if state['dirs'] > 5000:
            return
        for name in sorted(os.listdir(absd)):
            if name.startswith('.'):
                continue
            p = name if not rel else rel + '/' + name
            if p in ignores:
                continue
            ap = os.path.join(absd, name)
            if os.path.isdir(ap):
                walk(ap, p, stack + [key])
            else:
                files.append(p)
    walk(root, '', [])
    return state['loop'], files, state['dirs']


def write_manifest(root, files, ignores, extra=()):
    ents = []
    for f in files:
        if f == 'Manifest':
            continue
        with open(os.path.join(root, f), 'rb') as fh:
            ents.append(mtext.file_entry('DATA', f, fh.read(), ['SHA256']))
    for ig in ignores:
        ents.append({'tag': 'IGNORE', 'path': ig})
    ents.extend(extra)
    with open(os.path.join(root, 'Manifest'), 'w') as f:
        f.write(mtext.render(ents))


def run_walker(root, walker, wseed, allow_xdev=True):
    """@walker may carry the suffix '-rel': the loader is then given the relative
    path ./Manifest from inside the tree (what `cd TREE && gemato verify` does)."""
    if walker.endswith('-rel'):
        old = os.getcwd()
        os.chdir(root)
        try:
            return run_walker('.', walker[:-4], wseed, allow_xdev)
        finally:
            os.chdir(old)
    from gemato.recursiveloader import ManifestRecursiveLoader
    perm = walkperm.WalkPermuter(wseed, budget=BUDGET)
    kw = {}
    if walker == 'create':
        # a brand-new tree: no top-level Manifest on disk yet (`gemato create`)
        if os.path.exists(os.path.join(root, 'Manifest')):
            os.unlink(os.path.join(root, 'Manifest'))
        kw['allow_create'] = True
    try:
        with perm:
            m = ManifestRecursiveLoader(os.path.join(root, 'Manifest'),
                                        verify_openpgp=False, hashes=['SHA256'],
                                        allow_xdev=allow_xdev, **kw)
            if walker == 'verify':
                calls = []

                def h(e):
                    calls.append(e.path)
                    return True
                r = m.assert_directory_verifies('', fail_handler=h)
                return ('ret', (r, calls)), perm.yields
            if walker == 'scan':
                return ('ret', m.load_unregistered_manifests('')), perm.yields
            if walker == 'update-inc':
                # incremental update: nothing is newer than last_mtime
                m.update_entries_for_directory('', last_mtime=4000000000.0)
            else:
                m.update_entries_for_directory('')
            return ('ret', 'updated'), perm.yields
    except Exception as exc:
        return ('exc', exc), perm.yields


def judge_loop(ctx, root, case, ignores):
    loop, files, ndirs = explore(root, set(ignores))
    nontrivial = bool(case['links'])
    walkers = list(WALKERS)
    if case.get('rel'):
        walkers += [w + '-rel' for w in WALKERS]
    for walker in walkers:
        ctx.case(sig=('loop', tuple(case['shape']), len(case['links']), loop,
                      case['ignore'] is not None and case['ignore'][0], walker),
                 case=dict(case, walker=walker), nontrivial=nontrivial,
                 klass=walker)
        ctx.count('expect:loop' if loop else 'expect:noloop')
        (kind, val), yields = run_walker(root, walker, case['wseed'])
        ctx.count('walk_yields', yields)
        c2 = dict(case, walker=walker)
        if kind == 'exc':
            name = type(val).__name__
            if name == 'BudgetExceeded':
                ctx.violation('walk-not-terminating:' + walker,
                              '%s exceeded %d directory steps on a tree with %d '
                              'directories' % (walker, BUDGET, len(case['shape']) + 1),
                              c2)
            elif name == 'ManifestSymlinkLoop':
                if not loop:
                    ctx.violation('bogus-loop-error:' + walker,
                                  '%s raised ManifestSymlinkLoop(%r) on a tree whose '
                                  'non-ignored links never lead back to an ancestor'
                                  % (walker, getattr(val, 'path', None)), c2)
            else:
                if loop and name == 'OSError':
                    ctx.violation('loop-ends-in-oserror:' + walker,
                                  '%s ran into %r instead of raising the symlink-loop '
                                  'error' % (walker, val), c2)
                elif not loop:
                    ctx.violation('walker-raises:%s:%s' % (walker, adapt.exc_key(val)),
                                  '%s raised %r on a loop-free tree' % (walker, val), c2)
                else:
                    ctx.violation('loop-wrong-error:%s:%s' % (walker, name),
                                  '%s raised %r instead of ManifestSymlinkLoop'
                                  % (walker, val), c2)
        else:
            if loop:
                ctx.violation('loop-not-raised:' + walker,
                              '%s completed (%r) although a non-ignored symlink leads '
                              'back to an ancestor directory' % (walker, val), c2)
            elif walker == 'verify':
                r, calls = val
                if calls or r is not True:
                    ctx.violation('linked-files-not-ordinary',
                                  'files reached through directory symlinks are listed '
                                  'but verification reported %r' % (calls[:4],), c2)


def exec_loop_case(ctx, case):
    with common.Scratch('vf-c16-') as d:
        root = os.path.join(d, 't')
        paths, lpaths, ignores = build(root, case['shape'],
                                       [tuple(x) for x in case['links']],
                                       tuple(case['ignore']) if case['ignore'] else None,
                                       prefix_names=bool(case.get('prefix_names')),
                                       pruned=case.get('pruned'))
        if case.get('pruned'):
            ctx.count('pruned_sibling_cases')
        loop, files, nd = explore(root, set(ignores))
        write_manifest(root, files, ignores)
        judge_loop(ctx, root, case, ignores)


def run_enum(u, ctx):
    shape = u['shape']
    n = len(shape) + 1
    cands = [(loc, tgt) for loc in range(n) for tgt in range(n)]
    k = 0
    for L in range(0, u['maxl'] + 1):
        for links in itertools.combinations(cands, L):
            igns = [None]
            for i in range(len(links)):
                igns.append(('link', i))
                igns.append(('above', i))
                igns.append(('below', i))
            for ign in igns:
                case = {'kind': 'loop', 'shape': shape,
                        'links': [list(x) for x in links],
                        'ignore': list(ign) if ign else None,
                        'prefix_names': k % 2 == 1, 'rel': k % 5 == 0,
                        'pruned': [None, 'hidden', 'ignored'][(k // 2) % 3],
                        'wseed': (k * 7919 + ctx.seed) % (1 << 30)}
                exec_loop_case(ctx, case)
                k += 1
                if k % 211 == 1:
                    ctx.sample(case, 'enum')


def run_rand(u, ctx):
    rng = common.rng_for(ctx.seed, ID, 'rand', u['i'])
    n = rng.randint(4, 6)
    shape = [rng.randrange(i) for i in range(1, n + 1)]
    links = []
    for _ in range(rng.randint(1, 4)):
        links.append([rng.randrange(n + 1), rng.randrange(n + 1)])
    ign = rng.choice([None, ['link', rng.randrange(len(links))],
                      ['above', rng.randrange(len(links))]])
    case = {'kind': 'loop', 'shape': shape, 'links': links, 'ignore': ign,
            'prefix_names': rng.random() < 0.5, 'rel': rng.random() < 0.5,
            'pruned': rng.choice([None, 'hidden', 'ignored']),
            'wseed': rng.randrange(1 << 30)}
    exec_loop_case(ctx, case)
    ctx.sample(case, 'rand')


def exec_xdev(ctx, case):
    from gemato.exceptions import ManifestCrossDevice
    with common.Scratch('vf-c16x-') as d, \
            common.Scratch('vf-c16x-', base='/dev/shm') as ext:
        root = os.path.join(d, 't')
        if os.stat(d).st_dev == os.stat(ext).st_dev:
            ctx.notes['xdev_same_device'] += 1
            return
        shape = case['shape']
        paths, lpaths, _ = build(root, shape, [], None)
        os.makedirs(os.path.join(ext, 'sub'))
        with open(os.path.join(ext, 'xf'), 'w') as f:
            f.write('foreign')
        with open(os.path.join(ext, 'sub', 'inner'), 'w') as f:
            f.write('foreign2')
        loc = paths[case['loc']]
        lp = (loc + '/' if loc else '') + 'xl'
        extra = []
        if case['what'] == 'dir':
            os.symlink(ext, os.path.join(root, lp))
        elif case['what'] in ('leafdir', 'leaffiles'):
            # a foreign directory without sub-directories: empty, or holding only
            # files nobody lists
            leaf = os.path.join(ext, 'leaf')
            os.makedirs(leaf)
            if case['what'] == 'leaffiles':
                with open(os.path.join(leaf, 'unknown'), 'w') as f:
                    f.write('u')
            os.symlink(leaf, os.path.join(root, lp))
        elif case['what'] == 'manifest':
            # a sub-Manifest that is a symlink to a file on the other file system
            # (with a matching MANIFEST entry when 'listed')
            mdir = loc
            if not mdir:
                mdir = 'xm'
                os.makedirs(os.path.join(root, mdir), exist_ok=True)
                with open(os.path.join(root, mdir, 'f'), 'w') as f:
                    f.write('f')
            lp = mdir + '/Manifest'
            fm = b'DIST foreign.tar 1\n'
            with open(os.path.join(ext, 'foreign-Manifest'), 'wb') as f:
                f.write(fm)
            os.symlink(os.path.join(ext, 'foreign-Manifest'), os.path.join(root, lp))
            if case['listed'] and not case['ignored']:
                extra = [mtext.file_entry('MANIFEST', lp, fm, ['SHA256'])]
        else:
            os.symlink(os.path.join(ext, 'xf'), os.path.join(root, lp))
        ignores = [lp] if case['ignored'] else []
        loop, files, nd = explore(root, set(ignores))
        listed = [f for f in files
                  if (case['listed'] or not mtext.comp_prefix(f, lp))
                  and not (case['what'] == 'manifest' and f == lp)]
        write_manifest(root, listed, ignores, extra)
        if case['listed'] and not case['ignored'] and case['what'] in ('dir', 'file'):
            cli_multi_xdev(ctx, d, root, case, lp, listed, ignores, extra)
        for walker in WALKERS + ['update-inc', 'create']:
            if walker == 'create' and case['ignored']:
                continue        # nothing can be IGNOREd before a Manifest exists
            for ax in (False, True):
                c2 = dict(case, walker=walker, allow_xdev=ax)
                ctx.case(sig=('xdev', case['what'], case['listed'], case['ignored'],
                              walker, ax), case=c2, klass='xdev')
                ctx.count('xdev_cases')
                (kind, val), yields = run_walker(root, walker, case['wseed'], ax)
                must = (not ax) and not case['ignored']
                # the unregistered-Manifest scan only looks at directories
                if walker == 'scan' and case['what'] in ('file', 'manifest'):
                    must = False
                if kind == 'exc':
                    if isinstance(val, ManifestCrossDevice):
                        if ax or case['ignored']:
                            ctx.violation('bogus-xdev-error:' + walker,
                                          '%s raised ManifestCrossDevice with '
                                          'allow_xdev=%r ignored=%r' % (
                                              walker, ax, case['ignored']), c2)
                    else:
                        ctx.violation('xdev-walker-raises:%s:%s' % (
                            walker, adapt.exc_key(val)), '%s raised %r' % (walker, val),
                            c2)
                elif must:
                    if walker == 'verify' and case['what'] in ('file', 'manifest') \
                            and not case['listed']:
                        r, calls = val
                        if lp in calls:
                            ctx.count('xdev_stray_reported_as_mismatch')
                            continue
                    ctx.violation('xdev-not-raised:%s:%s:%s' % (
                        walker, case['what'], 'listed' if case['listed'] else 'stray'),
                        '%s completed (%r) in one-file-system mode although %s %r is on '
                        'another device' % (walker, val, case['what'], lp), c2)
        if case['what'] == 'manifest' and case['listed'] and not case['ignored']:
            # the foreign sub-Manifest itself carries stale entries for the files of
            # its directory (so an update has to rewrite it): the update walk must
            # still refuse it in one-file-system mode, in whatever order the
            # directory is listed
            import hashlib
            mdir = os.path.dirname(lp)
            names = sorted(n for n in os.listdir(os.path.join(root, mdir))
                           if os.path.isfile(os.path.join(root, mdir, n))
                           and n != 'Manifest')
            for k in range(3):
                nm = 'stale%d' % k
                with open(os.path.join(root, mdir, nm), 'w') as f:
                    f.write('content of ' + nm)
                names.append(nm)
            fm = ''.join('DATA %s 0 SHA256 %s\n' % (n, hashlib.sha256(b'').hexdigest())
                         for n in names).encode()
            with open(os.path.join(ext, 'foreign-Manifest'), 'wb') as f:
                f.write(fm)
            keep = [f for f in listed if os.path.dirname(f) != mdir]
            write_manifest(root, keep, ignores,
                           [mtext.file_entry('MANIFEST', lp, fm, ['SHA256'])])
            for j in range(4):
                for walker in ('update', 'update-inc'):
                    c2 = dict(case, walker=walker, allow_xdev=False, stale=True)
                    ctx.count('xdev_stale_foreign_manifest_cases')
                    (kind, val), yields = run_walker(root, walker, case['wseed'] + j,
                                                     False)
                    with open(os.path.join(ext, 'foreign-Manifest'), 'rb') as f:
                        now = f.read()
                    if now != fm:
                        ctx.violation('xdev-foreign-manifest-written:' + walker,
                                      'the sub-Manifest on the other file system was '
                                      'rewritten in one-file-system mode', c2)
                        return
                    if kind == 'exc' and isinstance(val, ManifestCrossDevice):
                        continue
                    ctx.violation('xdev-not-raised:%s:manifest:stale-entries' % walker,
                                  '%s %s in one-file-system mode although the '
                                  'sub-Manifest %r (with stale entries, so it is due '
                                  'for rewriting) is on another device' % (
                                      walker, 'completed' if kind != 'exc' else
                                      'raised %r' % (val,), lp), c2)
                    return


def cli_multi_xdev(ctx, d, root, case, lp, listed, ignores, extra):
    """`gemato verify|update -x P1 P2 ..`: one-file-system mode holds for every path
    of the invocation, wherever the tree that crosses the boundary stands."""
    from gemato import cli as gcli
    clean = os.path.join(d, 'clean')
    os.makedirs(os.path.join(clean, 'sub'))
    with open(os.path.join(clean, 'sub', 'f'), 'w') as f:
        f.write('clean')
    write_manifest(clean, ['sub/f'], [])
    with open(os.path.join(root, 'Manifest'), 'rb') as f:
        before = f.read()
    for cmd in ('verify', 'update'):
        for order in ([root], [clean, root], [root, clean], [clean, clean, root]):
            argv = ['gemato', cmd, '-x']
            if len(order) % 2 == 0:
                # other options next to it (in either order) do not switch it off
                argv = ['gemato', cmd, '-j', '2', '-x'] if len(order) == 2 else \
                    ['gemato', cmd, '-x', '-j', '3']
                ctx.count('xdev_cli_with_jobs')
            if cmd == 'update':
                argv += ['--hashes', 'SHA256']
            argv += order
            c2 = dict(case, walker='cli-' + cmd, allow_xdev=False,
                      order=[os.path.basename(o) for o in order])
            ctx.case(sig=('xdev-cli', case['what'], cmd, tuple(c2['order'])), case=c2,
                     klass='xdev-cli')
            ctx.count('xdev_cli_cases')
            try:
                rc = gcli.main(argv)
            except SystemExit as exc:
                rc = 'exit:%r' % (exc.code,)
            except Exception as exc:
                ctx.violation('xdev-walker-raises:cli-%s:%s' % (cmd, adapt.exc_key(exc)),
                              '`%s` raised %r' % (' '.join(argv[:3]), exc), c2)
                continue
            with open(os.path.join(root, 'Manifest'), 'rb') as f:
                after = f.read()
            if rc == 0:
                ctx.violation('xdev-not-raised:cli-%s:%s:listed' % (cmd, case['what']),
                              '`gemato %s -x %s` returned 0 although %s %r is on another '
                              'device' % (cmd, ' '.join(c2['order']), case['what'], lp),
                              c2)
            elif after != before:
                ctx.violation('xdev-update-wrote:cli-update',
                              '`gemato update -x %s` failed (rc %r) but rewrote the '
                              'Manifest of the tree that crosses the boundary'
                              % (' '.join(c2['order']), rc), c2)
            # (whatever happened, start the next command from the same state)
            write_manifest(root, listed, ignores, extra)
            write_manifest(clean, ['sub/f'], [])


def exec_pairs(ctx, case):
    """Several hidden and several IGNOREd directories next to each other, each one
    holding a link back to an ancestor (or being a link to another file system):
    everything beneath them is exempt, so every walker must complete."""
    from gemato.exceptions import ManifestCrossDevice, ManifestSymlinkLoop
    with common.Scratch('vf-c16p-') as d, \
            common.Scratch('vf-c16p-', base='/dev/shm') as ext:
        root = os.path.join(d, 't')
        os.makedirs(root)
        with open(os.path.join(root, 'f'), 'w') as f:
            f.write('f')
        xdev = case['xdev'] and os.stat(d).st_dev != os.stat(ext).st_dev
        with open(os.path.join(ext, 'inner'), 'w') as f:
            f.write('x')
        ignores = []
        for parent, names, ign in (('pair', case['hidden'], False),
                                   ('pairi', case['ignored'], True)):
            os.makedirs(os.path.join(root, parent))
            for nm in names:
                p = os.path.join(root, parent, nm)
                if xdev:
                    os.symlink(ext, p)
                else:
                    os.makedirs(p)
                    os.symlink('../..', os.path.join(p, 'up'))
                if ign:
                    ignores.append(parent + '/' + nm)
        if case['extra_dir']:
            os.makedirs(os.path.join(root, 'pairi', 'plain'))
            with open(os.path.join(root, 'pairi', 'plain', 'g'), 'w') as f:
                f.write('g')
        loop, files, nd = explore(root, set(ignores))
        write_manifest(root, files, ignores)
        for walker in WALKERS + ['update-inc']:
            c2 = dict(case, walker=walker)
            ctx.case(sig=('pairs', len(case['hidden']), len(case['ignored']), xdev,
                          walker), case=c2, klass='pairs')
            ctx.count('pairs_cases')
            (kind, val), yields = run_walker(root, walker, case['wseed'],
                                             allow_xdev=not xdev)
            if kind == 'exc':
                if isinstance(val, (ManifestSymlinkLoop, ManifestCrossDevice)):
                    ctx.violation('exempt-path-raises:%s:%s' % (
                        walker, type(val).__name__), '%s raised %r for a path beneath a '
                        'hidden or IGNOREd directory' % (walker, val), c2)
                else:
                    ctx.violation('walker-raises:%s:%s' % (walker, adapt.exc_key(val)),
                                  '%s raised %r' % (walker, val), c2)
            elif walker == 'verify':
                r, calls = val
                if calls or r is not True:
                    ctx.violation('exempt-path-reported', 'verification reported %r '
                                  'although only exempt directories hold anything '
                                  'unlisted' % (calls[:4],), c2)


def run_pairs(u, ctx):
    rng = common.rng_for(ctx.seed, ID, 'pairs', u['i'])
    i = u['i']
    case = {'kind': 'pairs',
            'hidden': ['.a', '.b', '.c', '.git', '.github'][:2 + i % 3],
            'ignored': ['distfiles', 'local', 'lost+found', 'packages'][:2 + (i // 3) % 3],
            'xdev': bool((i // 9) % 2), 'extra_dir': bool((i // 18) % 2),
            'wseed': rng.randrange(1 << 30)}
    exec_pairs(ctx, case)
    ctx.sample(case, 'pairs')


def run_sameino(u, ctx):
    """Two fresh tmpfs instances in a private mount namespace, filled in the same
    order, so that directories on the second one carry the inode numbers of the
    link's own ancestors on the first: a link to such a directory is no loop (the
    device differs) and must be followed."""
    import json
    import subprocess
    with common.Scratch('vf-c16m-') as scratch:
        out = os.path.join(scratch, 'out.json')
        cmd = ['unshare', '-m', common.PY, '-m', 'vf.checks.c16', '--sameino-child',
               scratch, out, str(ctx.seed), str(u['i'])]
        try:
            r = subprocess.run(cmd, env=dict(os.environ), capture_output=True,
                               timeout=300, cwd=common.VERIF_DIR)
        except subprocess.TimeoutExpired:
            ctx.notes['sameino_timeout'] += 1
            return
        if r.returncode != 0 or not os.path.exists(out):
            ctx.notes['sameino_mount_unavailable'] += 1
            return
        with open(out) as f:
            res = json.load(f)
    ctx.counters.update(res['counters'])
    ctx.case_hashes.update(res['case_hashes'])
    ctx.signatures.update(res['signatures'])
    ctx.violations.extend(res['violations'])
    for k, v in res.get('notes', {}).items():
        ctx.notes[k] += v


def sameino_child(argv):
    import json
    import subprocess
    import sys
    from vf import harness
    scratch, out, seed, idx = argv[0], argv[1], int(argv[2]), int(argv[3])
    ctx = harness.Ctx(ID, 'quick', seed)
    setup_worker(ctx)
    subprocess.run(['mount', '--make-rprivate', '/'], check=False)
    ma, mb = os.path.join(scratch, 'A'), os.path.join(scratch, 'B')
    mounted = []
    try:
        for m in (ma, mb):
            os.makedirs(m)
            if subprocess.run(['mount', '-t', 'tmpfs', 'none', m],
                              capture_output=True).returncode != 0:
                sys.exit(7)
            mounted.append(m)
        # the same sequence of creations on both: equal inode numbers
        for base in (ma, mb):
            os.makedirs(os.path.join(base, 'd1', 'd2', 'd3'))
            with open(os.path.join(base, 'd1', 'd2', 'd3', 'f'), 'w') as f:
                f.write('f')
        pairs = [(r, os.stat(os.path.join(ma, r) if r else ma).st_ino,
                  os.stat(os.path.join(mb, r) if r else mb).st_ino)
                 for r in ('', 'd1', 'd1/d2', 'd1/d2/d3')]
        same = [r for r, a, b in pairs if a == b]
        if not same:
            ctx.notes['sameino_no_equal_inodes'] += 1
        else:
            root = ma
            # a link deep in tree A to the directory of B whose inode number equals
            # that of an ancestor of the link in A
            tgt_rel = same[idx % len(same)]
            lp = 'd1/d2/d3/cross'
            os.symlink(os.path.join(mb, tgt_rel) if tgt_rel else mb,
                       os.path.join(root, lp))
            loop, files, nd = explore(root, set())
            write_manifest(root, files, [])
            case = {'kind': 'sameino', 'i': idx, 'target': tgt_rel}
            for walker in WALKERS + ['update-inc']:
                c2 = dict(case, walker=walker)
                ctx.case(sig=('sameino', tgt_rel, walker), case=c2, klass='sameino')
                ctx.count('sameino_cases')
                (kind, val), yields = run_walker(root, walker, idx * 13 + 1)
                if kind == 'exc':
                    ctx.violation('bogus-loop-error:' + walker, '%s raised %r for a link '
                                  'to a directory on ANOTHER file system that merely has '
                                  'the inode number of an ancestor' % (walker, val), c2)
                elif walker == 'verify':
                    r, calls = val
                    if calls or r is not True:
                        ctx.violation('linked-files-not-ordinary', 'verification '
                                      'reported %r' % (calls[:4],), c2)
    finally:
        os.chdir('/')
        for m in reversed(mounted):
            subprocess.run(['umount', '-l', m], capture_output=True)
    with open(out, 'w') as f:
        json.dump(ctx.dump(), f, default=repr)
    sys.exit(0)


def run_xdev(u, ctx):
    rng = common.rng_for(ctx.seed, ID, 'xdev', u['i'])
    n = rng.randint(1, 3)
    shape = [rng.randrange(i) for i in range(1, n + 1)]
    i = u['i']
    case = {'kind': 'xdev', 'shape': shape, 'loc': rng.randrange(n + 1),
            'what': ['dir', 'file', 'manifest', 'leafdir', 'leaffiles'][i % 5],
            'listed': bool((i // 5) % 2),
            'ignored': bool((i // 10) % 2), 'wseed': rng.randrange(1 << 30)}
    exec_xdev(ctx, case)
    ctx.sample(case, 'xdev')


def run_unit(u, ctx):
    {'enum': run_enum, 'rand': run_rand, 'xdev': run_xdev,
     'pairs': run_pairs, 'sameino': run_sameino}[u['k']](u, ctx)


def replay(case, ctx):
    case = {k: v for k, v in case.items() if k not in ('walker', 'allow_xdev')}
    if case['kind'] == 'loop':
        exec_loop_case(ctx, case)
    elif case['kind'] == 'pairs':
        exec_pairs(ctx, case)
    elif case['kind'] == 'sameino':
        run_sameino({'i': case['i']}, ctx)
    else:
        exec_xdev(ctx, case)


if __name__ == '__main__':
    import sys
    if len(sys.argv) > 1 and sys.argv[1] == '--sameino-child':
        sameino_child(sys.argv[2:])
