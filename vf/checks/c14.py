"""C14 - a signed tree stays signed; sub-Manifests are never signed.

Matrix of sign option x originally signed/unsigned top-level x key id x secret
key availability over generated layouts (nested, compressed sub-Manifests, paths
needing escapes), through the real loader (and CLI) with a real gpg home.  The
harness then asks gpg itself (`--verify`, `--decrypt`) about what was written
and reads every sub-Manifest with the independent reader.
"""
import atexit
import logging
import os

from vf import adapt, common
from vf.fixtures import keys
from vf.gen import layout as glayout
from vf.gen import scenario
from vf.model import cleartext, mtext
from vf.model import update_post
from vf.mon import gpgenv

ID = 'C14'
LEVEL = 'exploration'
RULE = ('case = seeded tree + layout (nested / compressed sub-Manifests, hostile paths) x '
        'sign in {None, True, False} x top-level originally {signed, unsigned} x key id '
        '{default, explicit, second of two, wrong} x secret key {usable, absent, gpg '
        'killed, arriving after a first failed save on the same loader} x {library, CLI} x '
        'optional edit so that the signed text is new. Non-trivial = a signature is '
        'expected or a signing failure is expected; distinct = hash of the case.')
ANCHORS = ['recursiveloader:ManifestRecursiveLoader.save_manifest',
           'manifest:ManifestFile.dump',
           'openpgp:SystemGPGEnvironment.clear_sign_file',
           'openpgp:SystemGPGEnvironment.verify_file']
REQUIRED = ['openpgp:SystemGPGEnvironment.clear_sign_file', 'late_retries',
            'signer_checked:second', 'expect:signed',
            'expect:plain', 'expect:failure', 'gpg_verify_runs', 'submanifests_read',
            'behind_cases', 'overlong_line_cases_nonascii', 'corner_cases']
ASSUMPTIONS = ['GnuPG 2.2 with gpg-agent; vendored test key (tests/keydata.py)',
               'on a signing failure the top-level file may be left empty/truncated; a '
               'plain Manifest WITH entries counts as silently unsigned']

N = {'quick': 450, 'thorough': 6000}
PER_UNIT = 6
_homes = {}


def units(tier, seed):
    return [{'k': 'gen', 'i': i, 'n': PER_UNIT} for i in range(N[tier] // PER_UNIT)] + \
        [{'k': 'behind', 'i': i} for i in range(2 if tier == 'quick' else 12)]


def setup_worker(ctx):
    common.use_repo()
    logging.getLogger().setLevel(logging.CRITICAL)


def home(kind):
    """'secret': usable secret key; 'public': only the public key (signing must fail);
    'two': the vendored secret key (default) plus a second, generated one"""
    if kind not in _homes:
        h = gpgenv.Home(direct_trust=True)
        h.import_key(keys.VALID_PUBLIC_KEY if kind == 'public' else keys.PRIVATE_KEY)
        h.set_trust(keys.KEY_FINGERPRINT, 6)
        if kind == 'two':
            # (a third key, earlier in the keyring, whose user id shares a word with
            # the second key's: selecting "Second Key" must not pick it up)
            h.gpg(['--pinentry-mode', 'loopback', '--passphrase', '',
                   '--quick-gen-key', 'Key Zero <zero@example.com>', 'ed25519', 'sign',
                   'never'])
            rc, out, err = h.gpg(['--pinentry-mode', 'loopback', '--passphrase', '',
                                  '--quick-gen-key', 'Second Key <second@example.com>',
                                  'ed25519', 'sign', 'never'])
            rc, out, err = h.gpg(['--with-colons', '--list-secret-keys',
                                  'second@example.com'])
            fprs = [ln.split(':')[9] for ln in out.decode().splitlines()
                    if ln.startswith('fpr:')]
            if not fprs:
                raise RuntimeError('cannot generate a second key: %r' % err[-300:])
            h.second_fpr = fprs[0]
            h.set_trust(h.second_fpr, 6)
            with open(os.path.join(h.dir, 'gpg.conf'), 'a') as f:
                # (the configured default is NOT the first secret key of the keyring)
                f.write('default-key %s\n' % h.second_fpr)
        _homes[kind] = h
        atexit.register(h.close)
    return _homes[kind]


def is_signed_text(text):
    lines = text.split('\n')
    return (cleartext.BEGIN in lines and cleartext.SIGBEGIN in lines
            and cleartext.SIGEND in lines)


def judge(ctx, root, case):
    from gemato.exceptions import GematoException, OpenPGPSigningFailure
    from gemato.openpgp import SystemGPGEnvironment
    from gemato.recursiveloader import ManifestRecursiveLoader
    sign, orig_signed = case['sign'], case['orig_signed']
    keyid, hk = case['keyid'], case['home']
    if hk == 'killed':
        orig_signed = False     # (the stand-in could not verify anything)
    top_name = case.get('top', 'Manifest')
    top = os.path.join(root, top_name)
    late = None
    if hk == 'late':
        # a home of its own that gets the secret key only after the first attempt
        late = gpgenv.Home(direct_trust=True)
        late.import_key(keys.VALID_PUBLIC_KEY)
        late.set_trust(keys.KEY_FINGERPRINT, 6)
        h = late
    else:
        h = home('secret' if hk == 'killed' else hk)
    signer = home('two' if hk == 'two' else 'secret')
    try:
        _judge(ctx, root, case, sign, orig_signed, keyid, hk, top_name, top, h, signer)
    finally:
        if late is not None:
            late.close()


def _judge(ctx, root, case, sign, orig_signed, keyid, hk, top_name, top, h, signer):
    from gemato.exceptions import GematoException, OpenPGPSigningFailure
    from gemato.openpgp import SystemGPGEnvironment
    from gemato.recursiveloader import ManifestRecursiveLoader
    if orig_signed:
        with open(top, 'rb') as f:
            raw = f.read()
        body = mtext.decompress_named(top_name, raw).decode('utf8')
        signed = signer.clearsign(body)
        with open(top, 'wb') as f:
            f.write(mtext.compress(mtext.suffix_of(top_name) or 'plain',
                                   signed.encode('utf8')))
    expect_signed = bool(sign) or (sign is None and orig_signed)
    can_sign = hk in ('secret', 'two', 'late') and keyid != 'wrong'
    longline = False
    if not orig_signed and sign is True and top_name == 'Manifest' and hk != 'late' \
            and len(case['skel']['nodes']) % 4 == 1:
        # an entry line longer than GnuPG covers in a cleartext signature (19993
        # bytes): the saved message cannot be a signature over exactly the entries,
        # so signing has to be refused
        longline = True
        ctx.count('overlong_line_cases')
        name = 'd' * 21000
        if (len(case['skel']['nodes']) // 4) % 2 == 1:
            # fewer characters than the limit, more bytes (the limit is one of bytes)
            name = '\u00e9' * 400 + 'd' * 19400
            ctx.count('overlong_line_cases_nonascii')
        with open(top, 'a', encoding='utf8') as f:
            f.write('DIST %s 1 MD5 %s\n' % (name, 'ab' * 16))
    expect = 'plain' if not expect_signed else (
        'signed' if can_sign and not longline else 'failure')
    want_fpr = keys.KEY_FINGERPRINT
    if keyid in ('second', 'second-uid') or (hk == 'two' and keyid == 'default'):
        # (explicitly, or through `default-key` in that home's gpg.conf)
        want_fpr = home('two').second_fpr
        if keyid == 'default':
            ctx.count('configured_default_key_cases')
    ctx.count('expect:' + expect)
    ctx.case(sig=('c14', sign, orig_signed, keyid, hk, case['api'], top_name,
                  case.get('watermark')), case=case, nontrivial=expect != 'plain',
             klass=expect)
    with open(top, 'rb') as f:
        top_before = f.read()
    import gemato.openpgp as go
    real_gnupg = go.GNUPG
    if hk == 'killed':
        # a gpg that dies from a signal after emitting part of its output
        script = os.path.join(os.path.dirname(root), 'gpg-killed.sh')
        with open(script, 'w') as f:
            f.write('#!/bin/sh\ncat >/dev/null\n'
                    'echo "-----BEGIN PGP SIGNED MESSAGE-----"\necho "Hash: SHA256"\n'
                    'echo\necho "DATA partial 0"\nkill -9 $$\n')
        os.chmod(script, 0o755)
        go.GNUPG = script
    os.environ['GNUPGHOME'] = h.dir
    kid = {'default': None, 'explicit': keys.KEY_ID, 'wrong': '0xDEADBEEFDEADBEEF',
           'second': getattr(h, 'second_fpr', None),
           # selected by user id, which contains a blank
           'second-uid': 'Second Key'}[keyid]
    outcome = None
    try:
        if case['api'] == 'cli':
            from gemato import cli as gcli
            argv = ['gemato', case.get('command', 'update'), '--hashes',
                    'SHA256 BLAKE2B']
            ctx.count('cli_command:' + case.get('command', 'update'))
            if sign is True:
                argv.append('-s')
            elif sign is False:
                argv.append('-S')
            if kid:
                argv += ['-k', kid]
            if case.get('force'):
                argv.append('-f')
            argv.append(root)
            try:
                rc = gcli.main(argv)
            except SystemExit as exc:
                rc = 'exit'
            outcome = ('rc', rc)
        else:
            env = SystemGPGEnvironment()
            kw = {}
            if case.get('watermark') is not None:
                kw['compress_watermark'] = case['watermark']
            if case.get('command') == 'create' and hk != 'late':
                # what `create` does: allow_create, verification left at its default
                kw['allow_create'] = True
                ctx.count('lib_allow_create')
            else:
                kw['verify_openpgp'] = True
            m = ManifestRecursiveLoader(top, openpgp_env=env,
                                        sign_openpgp=sign, openpgp_keyid=kid,
                                        hashes=['SHA256', 'BLAKE2B'], **kw)
            if orig_signed and not m.openpgp_signed:
                ctx.violation('orig-signature-not-recognised', 'a validly signed '
                              'top-level Manifest was loaded as unsigned', case)
                return
            m.update_entries_for_directory('')
            if hk == 'late' and expect_signed:
                # history on one loader: the first save cannot sign (no secret key),
                # the key arrives, the save is repeated
                try:
                    m.save_manifests(force=True)
                    first = 'ok'
                except OpenPGPSigningFailure:
                    first = 'signfail'
                ctx.count('late_first_attempt:' + first)
                if first == 'ok':
                    ctx.violation('signing-failure-not-reported', 'signing cannot work '
                                  '(no secret key yet) but save reported success', case)
                    return
                h.import_key(keys.PRIVATE_KEY)
                # (the retry is an ordinary save half the time: what was pending when
                # the first one failed must still be pending)
                m.save_manifests(force=bool(case.get('retry_forced', True)))
                ctx.count('late_retries')
            else:
                m.save_manifests(force=case.get('force', False))
            top_name = m.top_level_manifest_filename
            outcome = ('ok', None)
    except OpenPGPSigningFailure as exc:
        outcome = ('signfail', exc)
    except GematoException as exc:
        outcome = ('gexc', exc)
    except Exception as exc:
        ctx.violation('save-raises:' + adapt.exc_key(exc), 'update/save raised %r'
                      % (exc,), case)
        return
    finally:
        os.environ.pop('GNUPGHOME', None)
        go.GNUPG = real_gnupg
    # ---- what is on disk now
    tops = [n for n in ['Manifest'] + ['Manifest.' + s for s in mtext.SUFFIXES]
            if os.path.exists(os.path.join(root, n))]
    detail = {'outcome': repr(outcome), 'tops': tops, 'expect': expect}
    texts = {}
    for n in tops:
        with open(os.path.join(root, n), 'rb') as f:
            raw = f.read()
        try:
            texts[n] = mtext.decompress_named(n, raw).decode('utf8')
        except Exception:
            texts[n] = None
    failed = outcome[0] in ('signfail', 'gexc') or \
        (outcome[0] == 'rc' and outcome[1] != 0)
    if not failed and os.path.exists(top):
        with open(top, 'rb') as f:
            if f.read() == top_before:
                # nothing had to be written to the top-level Manifest - provided
                # that it still describes the tree
                ctx.count('top_level_not_rewritten')
                findings = update_post.check(root, os.path.basename(top), '',
                                             ['SHA256', 'BLAKE2B'])
                findings = [f for f in findings if f[0] not in ('covered-twice',)]
                if findings and not case.get('_known_dups') and expect != 'failure':
                    ctx.violation('written-entries-stale', 'update and save returned '
                                  'without an error and left the top-level Manifest as it '
                                  'was, but it does not describe the tree: %r'
                                  % (findings[:3],), case, detail)
                return
    if expect == 'failure':
        if not failed:
            ctx.violation('signing-failure-not-reported', 'signing cannot work (home=%s, '
                          'key id=%s) but update/save reported success' % (hk, keyid),
                          case, detail)
        elif outcome[0] == 'gexc':
            ctx.violation('signing-failure-wrong-exception:' + type(outcome[1]).__name__,
                          'signing failure raised %r' % (outcome[1],), case, detail)
        untouched = False
        if os.path.exists(top):
            with open(top, 'rb') as f:
                untouched = f.read() == top_before
        if untouched:
            # (the failed save left the previous Manifest alone)
            ctx.count('top_level_untouched_after_failure')
        for n, t in texts.items():
            if t and not is_signed_text(t) and not orig_signed and not untouched:
                try:
                    ents = mtext.parse(t)
                except Exception:
                    ents = []
                if ents:
                    ctx.violation('unsigned-manifest-left-after-failure', 'after the '
                                  'signing failure %r is a plain Manifest with %d '
                                  'entries' % (n, len(ents)), case, detail)
        return
    if failed:
        ctx.violation('unexpected-failure:' + (type(outcome[1]).__name__ if outcome[0]
                                               != 'rc' else 'rc'),
                      'update/save failed (%r) although %s' % (
                          outcome[1], 'signing is possible' if expect == 'signed'
                          else 'no signature was asked for'), case, detail)
        return
    if len(tops) != 1 or texts[tops[0]] is None:
        ctx.violation('top-level-file-ambiguous', 'top-level Manifest files after save: '
                      '%r' % (tops,), case, detail)
        return
    ttext = texts[tops[0]]
    signed_now = is_signed_text(ttext)
    if expect == 'signed':
        if not signed_now:
            ctx.violation('top-level-not-signed:' + ('inherit' if sign is None
                                                     else 'requested'),
                          'the top-level Manifest %r was written unsigned although %s'
                          % (tops[0], 'it was loaded with a valid signature'
                             if sign is None else 'signing was requested'), case, detail)
            return
        rc, status = signer.verify(ttext.encode('utf8'))
        ctx.count('gpg_verify_runs')
        fprs = [ln.split()[2] for ln in status.split('\n')
                if ln.startswith('[GNUPG:] VALIDSIG')]
        if rc != 0 or not fprs:
            ctx.violation('written-signature-invalid', 'gpg --verify rejects the '
                          'written top-level Manifest (rc=%d)' % rc, case,
                          dict(detail, status=status[-600:]))
            return
        if want_fpr not in fprs or set(fprs) != {want_fpr}:
            ctx.violation('signed-with-other-key:' + keyid, 'the written top-level '
                          'Manifest is signed by %r, the signing key (%s) is %s'
                          % (fprs, keyid, want_fpr), case,
                          dict(detail, status=status[-600:]))
            return
        ctx.count('signer_checked:' + keyid)
        rc, clear, st = signer.decrypt(ttext.encode('utf8'))
        try:
            authed = [adapt.norm_model(e) for e in mtext.parse(clear.decode('utf8'))]
            mine = [adapt.norm_model(e) for e in mtext.parse(ttext)]
        except Exception as exc:
            ctx.violation('signed-text-unparsable', 'signed cleartext does not parse: %r'
                          % (exc,), case, detail)
            return
        if authed != mine:
            ctx.violation('signed-text-differs', 'entries gpg authenticated differ from '
                          'the entries in the file', case, detail)
            return
    else:
        if signed_now:
            ctx.violation('top-level-signed-unasked', 'the top-level Manifest was signed '
                          'although signing was %s' % ('disabled' if sign is False else
                                                      'not requested'), case, detail)
            return
    # entries describe the tree (the signed text is the NEW one)
    findings = update_post.check(root, tops[0], '', ['SHA256', 'BLAKE2B'])
    findings = [f for f in findings if f[0] not in ('covered-twice',)]
    if findings and not case.get('_known_dups'):
        ctx.violation('written-entries-stale', 'the written (signed) entries do not '
                      'describe the tree: %r' % (findings[:3],), case, detail)
        return
    # ---- sub-Manifests are never signed
    mans, _ = update_post.reachable_manifests(root, tops[0])
    for mp in mans:
        if mp == tops[0]:
            continue
        with open(os.path.join(root, mp), 'rb') as f:
            t = mtext.decompress_named(os.path.basename(mp), f.read()).decode('utf8')
        ctx.count('submanifests_read')
        if any(ln.startswith('-----') for ln in t.split('\n')):
            ctx.violation('sub-manifest-signed', 'sub-Manifest %r contains OpenPGP armor'
                          % mp, case, detail)
            return


def gen_case(rng, root):
    case, layout, info = scenario.build(
        rng, root, ['content', 'stray', 'delete'], rng.choice([0, 1, 2]),
        {'p_split': 0.25, 'specials': False, 'symlinks': False, 'p_mandir': 0.6,
         'hostile': rng.choice([0, 0.4, 0.8])})
    from vf.checks import c03
    case['_known_dups'] = bool(c03.pre_state(root)['dup_paths'])
    case.update({
        'kind': 'c14',
        'sign': rng.choice([None, None, True, False]),
        'orig_signed': rng.random() < 0.5,
        'keyid': rng.choice(['default', 'default', 'explicit', 'wrong']),
        'home': rng.choice(['secret', 'secret', 'secret', 'public', 'killed', 'two',
                            'two', 'late']),
        'api': rng.choice(['lib', 'lib', 'cli']),
        'force': rng.random() < 0.5,
        'watermark': rng.choice([None, None, 0, 10**6]),
    })
    # `gemato create` run again over the existing tree (the loader is opened with
    # allow_create): derived, so that the other draws stay what they were
    case['command'] = 'create' if (len(case['skel']['nodes']) + int(case['force'])) % 3 == 0 \
        else 'update'
    if case['home'] == 'two':
        case['keyid'] = rng.choice(['default', 'explicit', 'second', 'second', 'wrong'])
        if case['keyid'] == 'second' and len(case['skel']['nodes']) % 2 == 0:
            case['keyid'] = 'second-uid'
    if case['home'] == 'late':
        case['api'] = 'lib'
        case['force'] = True
        # (no re-compression: what a loader holds after a save that failed half-way
        # through renaming Manifests is not defined by any property)
        case['watermark'] = None
        case['retry_forced'] = rng.random() < 0.5
    subs = [m for m, md in layout['mans'].items() if md['parent'] is not None]
    if subs and rng.random() < 0.25:
        # a sub-Manifest that carries a valid cleartext signature of its own on disk
        # (a formerly stand-alone signed tree nested into this one)
        sm = rng.choice(sorted(subs))
        fmt = layout['mans'][sm]['fmt']
        with open(os.path.join(root, sm), 'rb') as f:
            body = mtext.decompress_named(os.path.basename(sm), f.read()).decode('utf8')
        signed = home('secret').clearsign(body)
        with open(os.path.join(root, sm), 'wb') as f:
            f.write(mtext.compress(fmt, signed.encode('utf8')))
        anc = glayout.chain_to_top(layout, sm)[1:]
        # the parents must record the signed file
        for m in anc:
            with open(os.path.join(root, m), 'wb') as f:
                f.write(glayout.render_one(root, layout, m))
        case['manifests'] = glayout.manifest_nodes(root, layout)
        case['signed_sub'] = sm
        case['force'] = True
        case['home'] = 'secret'
        case['keyid'] = rng.choice(['default', 'explicit'])
    if rng.random() < 0.15:
        # a compressed top-level Manifest (only reachable through the library)
        fmt = rng.choice(['gz', 'xz'])
        case['top'] = 'Manifest.' + fmt
        case['api'] = 'lib'
        with open(os.path.join(root, 'Manifest'), 'rb') as f:
            raw = f.read()
        os.unlink(os.path.join(root, 'Manifest'))
        with open(os.path.join(root, case['top']), 'wb') as f:
            f.write(mtext.compress(fmt, raw))
        case['ops'].append({'op': 'unlink', 'p': 'Manifest'})
        case['manifests'] = [n for n in case['manifests'] if n['p'] != 'Manifest'] + \
            [{'p': case['top'], 't': 'f', 'c': common.spec_of(mtext.compress(fmt, raw))}]
    return case


def exec_behind(ctx, case):
    """State carried on a long-lived loader: the top-level Manifest is (re)loaded on
    the same loader after somebody signed it on disk (or was signed from the start and
    is loaded a second time); the sign option is unset.  What was LOADED with a valid
    signature has to be saved signed."""
    from gemato.openpgp import SystemGPGEnvironment
    from gemato.recursiveloader import ManifestRecursiveLoader
    from gemato import cli as gcli
    h = home('secret')
    with common.Scratch('vf-c14b-') as d:
        root = os.path.join(d, 't')
        os.makedirs(os.path.join(root, 'sub'))
        for rel, data in (('a', b'1'), ('sub/b', b'22'), ('c d', b'333')):
            with open(os.path.join(root, rel), 'wb') as f:
                f.write(data)
        os.environ['GNUPGHOME'] = h.dir
        try:
            argv = ['gemato', 'create', '--hashes', 'SHA256', '-S', root]
            if case['start'] == 'signed':
                argv = ['gemato', 'create', '--hashes', 'SHA256', '-s', '-k',
                        keys.KEY_ID, root]
            if gcli.main(argv) != 0:
                ctx.count('harness_error')
                return
            top = os.path.join(root, 'Manifest')
            env = SystemGPGEnvironment()
            m = ManifestRecursiveLoader(top, verify_openpgp=True, openpgp_env=env,
                                        hashes=['SHA256'])
            if case['start'] == 'unsigned':
                with open(top) as f:
                    body = f.read()
                with open(top, 'w') as f:
                    f.write(h.clearsign(body, keys.KEY_ID))
            for _ in range(case['reloads']):
                m.load_manifest('Manifest')
            ctx.case(sig=('behind', case['start'], case['reloads'], case['edit']),
                     case=case, klass='behind')
            if not m.loaded_manifests['Manifest'].openpgp_signed:
                ctx.count('behind_reload_not_signed')
                return
            with open(os.path.join(root, case['edit']), 'wb') as f:
                f.write(b'changed-content')
            try:
                m.update_entries_for_directory('')
                m.save_manifests()
            except Exception as exc:
                ctx.violation('resigned-tree-save-raises:' + adapt.exc_key(exc),
                              'save on a loader whose top-level Manifest was loaded with '
                              'a valid signature raised %r' % (exc,), case)
                return
            ctx.count('behind_cases')
            with open(top) as f:
                text = f.read()
            if not is_signed_text(text):
                ctx.violation('signed-tree-written-plain:reloaded-on-long-lived-loader',
                              'the top-level Manifest was loaded with a valid signature '
                              '(start: %s, %d reload(s) on the same loader), the sign '
                              'option is unset, and the saved top-level Manifest is plain'
                              % (case['start'], case['reloads']), case)
                return
            rc, out, status = h.decrypt(text.encode('utf8'))
            if rc != 0 or 'GOODSIG' not in status:
                ctx.violation('saved-signature-does-not-verify:reloaded', 'gpg rc %r'
                              % (rc,), case)
        finally:
            os.environ.pop('GNUPGHOME', None)


def exec_corner(ctx, case):
    """Two corners of "a signed tree stays signed": (presave) the top-level Manifest
    saved once through save_manifest() on a long-lived loader, then an edit, an update
    and save_manifests() - the saved message must be a signature over the NEW entries;
    (empty) a tree without any file: `create -s` in an empty directory, and a signed
    tree whose last file is removed and which is then updated with the sign option
    unset - the (entry-less) top-level Manifest is still a signed message."""
    from gemato.openpgp import SystemGPGEnvironment
    from gemato.recursiveloader import ManifestRecursiveLoader
    from gemato import cli as gcli
    h = home('secret')
    with common.Scratch('vf-c14c-') as d:
        root = os.path.join(d, 't')
        os.makedirs(root)
        os.environ['GNUPGHOME'] = h.dir
        top = os.path.join(root, 'Manifest')
        ctx.case(sig=('corner', case['what'], case.get('api')), case=case,
                 klass='corner')
        try:
            if case['what'] in ('presave', 'last-file-removed'):
                with open(os.path.join(root, 'a'), 'wb') as f:
                    f.write(b'1')
            if case['what'] == 'presave':
                with open(os.path.join(root, 'b'), 'wb') as f:
                    f.write(b'22')
            rc = gcli.main(['gemato', 'create', '--hashes', 'SHA256', '-s', '-k',
                            keys.KEY_ID, root])
            if rc != 0:
                ctx.count('harness_error')
                return
            if case['what'] == 'presave':
                env = SystemGPGEnvironment()
                m = ManifestRecursiveLoader(top, verify_openpgp=True, openpgp_env=env,
                                            hashes=['SHA256'])
                m.save_manifest('Manifest')
                with open(os.path.join(root, 'a'), 'wb') as f:
                    f.write(b'changed-content')
                if case['api'] == 'path':
                    m.update_entry_for_path('a')
                else:
                    m.update_entries_for_directory('')
                m.save_manifests()
            elif case['what'] == 'last-file-removed':
                os.unlink(os.path.join(root, 'a'))
                rc = gcli.main(['gemato', 'update', '--hashes', 'SHA256', root])
                if rc != 0:
                    ctx.count('corner_update_failed')
                    return
            ctx.count('corner_cases')
            with open(top) as f:
                text = f.read()
            if not is_signed_text(text):
                ctx.violation('signed-tree-written-plain:' + case['what'],
                              'signing was requested / inherited and the top-level '
                              'Manifest on disk is plain (%d bytes)' % len(text), case)
                return
            rc, out, status = h.decrypt(text.encode('utf8'))
            if rc != 0 or 'GOODSIG' not in status:
                ctx.violation('saved-signature-does-not-verify:' + case['what'],
                              'gpg rc %r' % (rc,), case)
                return
            if case['what'] == 'presave':
                ents = mtext.parse(out.decode('utf8'))
                sizes = {e['path']: e['size'] for e in ents if e['tag'] == 'DATA'}
                if sizes.get('a') != len(b'changed-content'):
                    ctx.violation('signature-over-stale-entries:presave',
                                  'the signed cleartext lists a with size %r, the file '
                                  'has %d bytes (top-level saved once before the edit '
                                  'on the same loader)' % (sizes.get('a'),
                                                           len(b'changed-content')), case)
        except Exception as exc:
            ctx.violation('corner-raises:' + adapt.exc_key(exc), '%s raised %r'
                          % (case['what'], exc), case)
        finally:
            os.environ.pop('GNUPGHOME', None)


def run_behind(u, ctx):
    for what, api in (('presave', 'path'), ('presave', 'dir'), ('empty', None),
                      ('last-file-removed', None)):
        exec_corner(ctx, {'kind': 'corner', 'what': what, 'api': api, 'i': u['i']})
    for start in ('unsigned', 'signed'):
        for reloads in ((1, 2) if start == 'unsigned' else (0, 1)):
            for edit in ('a', 'sub/b'):
                exec_behind(ctx, {'kind': 'behind', 'start': start, 'reloads': reloads,
                                  'edit': edit, 'i': u['i']})


def run_unit(u, ctx):
    if u.get('k') == 'behind':
        return run_behind(u, ctx)
    for j in range(u['n']):
        rng = common.rng_for(ctx.seed, ID, u['i'], j)
        with common.Scratch('vf-c14-') as d:
            root = os.path.join(d, 't')
            try:
                case = gen_case(rng, root)
            except RuntimeError as exc:
                ctx.discarded('generator: %s' % exc)
                continue
            judge(ctx, root, case)
            if j == 0:
                ctx.sample({k: case[k] for k in ('sign', 'orig_signed', 'keyid', 'home',
                                                 'api', 'force', 'watermark')}, 'c14')


def replay(case, ctx):
    if case.get('kind') == 'behind':
        return exec_behind(ctx, case)
    if case.get('kind') == 'corner':
        return exec_corner(ctx, case)
    with common.Scratch('vf-c14-') as d:
        root = os.path.join(d, 't')
        scenario.rebuild(root, case)
        judge(ctx, root, case)
