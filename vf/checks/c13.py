"""C13 - compression is transparent and follows the watermark.

meta  the same logical tree (consistent or mutated) is rendered with every
      assignment of {plain, gz, bz2, lzma, xz} to its sub-Manifests; verdict,
      reported offending paths and lookup results of the real loader must be
      equal across assignments (metamorphic oracle).
wm    save_manifests(compress_watermark=w, compress_format=f, force=F) with w at
      and around every Manifest size: every rewritten sub-Manifest (WriteAudit)
      must be compressed iff its uncompressed size >= w, a top-level `Manifest`
      never, one file per logical Manifest, parents reference existing names,
      the tree still verifies; repeated in alternating directions.
"""
import itertools
import logging
import os

from vf import adapt, common
from vf.checks import c03
from vf.gen import layout as glayout
from vf.gen import mutate as gmutate
from vf.gen import scenario
from vf.gen import tree as gtree
from vf.model import match as mmatch
from vf.model import mtext
from vf.model import update_post
from vf.mon import audit

ID = 'C13'
LEVEL = 'exploration'
RULE = ('meta: seeded tree with k <= 3 sub-Manifests, 0..2 mutations; all 5**k format '
        'assignments (sampled to 25 in quick) x {keep-going verify of "" and of a '
        'sub-directory, find_path_entry, find_dist_entry}; wm: watermark in {0, s-1, s, '
        's+1 for every Manifest size s, max+1} x target format x forced/unforced x 2..4 '
        'consecutive saves, on one loader or fresh ones, settings per call or from the '
        'constructor, with agreeing duplicate entries (MANIFEST / DATA twins). Non-trivial '
        '= at least one sub-Manifest; distinct = hash of '
        'the case.')
ANCHORS = ['recursiveloader:ManifestRecursiveLoader.save_manifests',
           'recursiveloader:ManifestRecursiveLoader.save_manifest',
           'profile:DefaultProfile.want_compressed_manifest',
           'compression:open_potentially_compressed_path',
           'compression:get_compressed_suffix_from_filename']
REQUIRED = ['recursiveloader:ManifestRecursiveLoader.save_manifests',
            'meta_assignments_compared', 'wm_saves_checked', 'wm_rewritten_manifests',
            'wm_saves_with_constructor_values']
ASSUMPTIONS = ['uncompressed size = number of bytes obtained by decompressing what is on '
               'disk after the save',
               'directories with several Manifest-named files are not generated here']

FMTS = glayout.FMTS
N = {'quick': 500, 'thorough': 15000}
PER_UNIT = 10


def units(tier, seed):
    return [{'k': 'gen', 'i': i, 'n': PER_UNIT} for i in range(N[tier] // PER_UNIT)]


def setup_worker(ctx):
    common.use_repo()
    logging.getLogger().setLevel(logging.CRITICAL)
    audit.install()


def logical(mp):
    sfx = mtext.suffix_of(mp)
    return mp[:-len(sfx) - 1] if sfx else mp


def reassign(layout, mapping):
    """Copy of @layout with sub-Manifest formats changed: {old mpath: fmt}."""
    ren = {}
    for mp, fmt in mapping.items():
        ren[mp] = glayout.man_name(logical(mp), fmt)
    out = {'top': layout['top'], 'mans': {}}
    for mp, d in layout['mans'].items():
        nm = ren.get(mp, mp)
        ents = []
        mdir = os.path.dirname(mp)
        for e in d['entries']:
            e = dict(e)
            if e['tag'] in mtext.FILE_TAGS:
                full = mtext.full_path(mdir, e)
                if full in ren:
                    e['path'] = os.path.relpath(ren[full], mdir or '.')
            ents.append(e)
        out['mans'][nm] = {'fmt': mapping.get(mp, d['fmt']),
                           'parent': ren.get(d['parent'], d['parent']),
                           'entries': ents}
    return out


def norm_path(p):
    base = os.path.basename(p)
    if base.startswith('Manifest'):
        return logical(p)
    return p


def observe(root, probes):
    """What the real loader says about this rendering of the tree."""
    from gemato.recursiveloader import ManifestRecursiveLoader
    out = {}
    for sub in probes['dirs']:
        rep = []
        try:
            m = ManifestRecursiveLoader(os.path.join(root, 'Manifest'),
                                        verify_openpgp=False)
            r = m.assert_directory_verifies(
                sub, fail_handler=lambda e: rep.append(norm_path(e.path)) or False)
            out['verify:' + sub] = (bool(r), tuple(sorted(rep)))
        except Exception as exc:
            out['verify:' + sub] = ('exc', type(exc).__name__,
                                    norm_path(getattr(exc, 'path', '') or ''))
    for f in probes['files']:
        try:
            m = ManifestRecursiveLoader(os.path.join(root, 'Manifest'),
                                        verify_openpgp=False)
            e = m.find_path_entry(f)
            v = None if e is None else adapt.norm_gemato(e)
            if v is not None and (v[0] == 'MANIFEST' or (
                    len(v) > 2 and os.path.basename(v[1]).startswith('Manifest')
                    and logical(os.path.basename(v[1])) == logical(os.path.basename(f)))):
                # the entry for a Manifest file (whatever its tag) necessarily
                # carries the size / digests of that rendering
                v = (v[0], norm_path(v[1]))
            out['entry:' + f] = v
        except Exception as exc:
            out['entry:' + f] = ('exc', type(exc).__name__)
    for name, rel in probes['dists']:
        try:
            m = ManifestRecursiveLoader(os.path.join(root, 'Manifest'),
                                        verify_openpgp=False)
            e = m.find_dist_entry(name, rel)
            out['dist:%s@%s' % (name, rel)] = None if e is None else adapt.norm_gemato(e)
        except Exception as exc:
            out['dist:%s@%s' % (name, rel)] = ('exc', type(exc).__name__)
    return out


def judge_meta(ctx, d, case, skel, layout, ops):
    subs = [m for m in layout['mans'] if layout['mans'][m]['parent'] is not None]
    if not subs:
        ctx.case(sig=('meta', 0), case=case, nontrivial=False, klass='meta')
        return
    subs = sorted(subs)[:3]
    assigns = list(itertools.product(FMTS, repeat=len(subs)))
    rng = common.rng_for('c13-assign', case['aseed'])
    if len(assigns) > case['max_assign']:
        assigns = rng.sample(assigns, case['max_assign'])
    base = None
    probes = case['probes']
    for k, asg in enumerate(assigns):
        root = os.path.join(d, 'm%d' % k)
        gtree.materialize(skel, root)
        gmutate.apply_ops(root, [o for o in ops if not o.get('after_render')])
        mapping = dict(zip(subs, asg))
        lay = reassign(layout, mapping)
        glayout.render(root, lay)
        # probes naming a sub-Manifest follow its renaming
        ren = {mp: glayout.man_name(logical(mp), f) for mp, f in mapping.items()}
        pr = dict(probes, files=[ren.get(f, f) for f in probes['files']])
        obs = observe(root, pr)
        obs = {('entry:' + norm_path(k[6:]) if k.startswith('entry:') else k): v
               for k, v in obs.items()}
        common.rmtree(root)
        if base is None:
            base = (asg, obs)
            continue
        ctx.count('meta_assignments_compared')
        if obs != base[1]:
            diff = sorted(k2 for k2 in set(obs) | set(base[1])
                          if obs.get(k2) != base[1].get(k2))
            ctx.violation('result-depends-on-compression:' + diff[0].split(':')[0],
                          'with sub-Manifest formats %r vs %r the result of %r differs: '
                          '%r vs %r' % (base[0], asg, diff[0], base[1].get(diff[0]),
                                        obs.get(diff[0])), case)
            break
    ctx.case(sig=('meta', len(subs), tuple(sorted(r['class'] for r in case['mutations']))),
             case=case, nontrivial=True, klass='meta')


def sizes_on_disk(root):
    out = {}
    for mp in update_post.reachable_manifests(root, 'Manifest')[0]:
        p = os.path.join(root, mp)
        try:
            with open(p, 'rb') as f:
                out[mp] = len(mtext.decompress_named(os.path.basename(mp), f.read()))
        except Exception:
            out[mp] = None
    return out


def judge_wm(ctx, root, case):
    from gemato.recursiveloader import ManifestRecursiveLoader
    if c03.crowded_dirs(root):
        ctx.discarded('crowded / aliased Manifest directory')
        return
    pre = mmatch.match(root, 'Manifest', '')
    if not pre.must_accept:
        ctx.discarded('tree not consistent before the save')
        return
    shared = None
    ctor_w = None
    for step, st in enumerate(case['saves']):
        sizes0 = sizes_on_disk(root)
        mans0 = set(sizes0)
        w = st['w']
        if isinstance(w, list):       # ['size', index, delta]
            vals = sorted(v for v in sizes0.values() if v is not None)
            w = max(0, vals[w[1] % len(vals)] + w[2]) if vals else 0
        if w == 'max+1':
            w = max([v for v in sizes0.values() if v] + [0]) + 1
        fmt_eff = st['fmt']
        ctor = case.get('ctor')
        if ctor and ctor_w is None:
            cw = ctor['w']
            if isinstance(cw, list):
                vals = sorted(v for v in sizes0.values() if v is not None)
                cw = max(0, vals[cw[1] % len(vals)] + cw[2]) if vals else 0
            ctor_w = cw
        use_ctor = bool(ctor and st.get('use_ctor'))
        if use_ctor:
            # nothing passed to this call: the values given to the constructor apply
            w, fmt_eff = ctor_w, ctor['fmt']
        case['_w'] = w
        try:
            with audit.Recording(root) as rec:
                if case.get('one_loader') and shared is not None:
                    m = shared      # history: the same loader object saves again
                elif case.get('profile'):
                    # options given to the constructor of a profile-using loader
                    from gemato.profile import get_profile_by_name
                    m = ManifestRecursiveLoader(
                        os.path.join(root, 'Manifest'), verify_openpgp=False,
                        hashes=['SHA256'], profile=get_profile_by_name(case['profile']),
                        sort=False, compress_watermark=w, compress_format=st['fmt'])
                else:
                    kw = {}
                    if ctor:
                        kw = {'compress_watermark': ctor_w,
                              'compress_format': ctor['fmt']}
                    m = ManifestRecursiveLoader(os.path.join(root, 'Manifest'),
                                                verify_openpgp=False, hashes=['SHA256'],
                                                **kw)
                shared = m
                if st.get('dirty'):
                    m.update_entries_for_directory('')
                if use_ctor:
                    m.save_manifests(force=st['force'])
                    ctx.count('wm_saves_with_constructor_values')
                elif case.get('profile') and not (case.get('one_loader') and step):
                    m.save_manifests(force=st['force'])
                else:
                    m.save_manifests(force=st['force'], compress_watermark=w,
                                     compress_format=st['fmt'])
        except Exception as exc:
            from gemato.exceptions import GematoException
            ctx.violation('wm-save-raises:' + adapt.exc_key(exc),
                          'save with watermark %r raised %r on a consistent tree'
                          % (w, exc), case)
            return
        ctx.count('wm_saves_checked')
        written = set()
        for ev in rec.events:
            if ev[0] == 'open-write':
                written.add(os.path.relpath(ev[1], root))
        sizes1 = sizes_on_disk(root)
        detail = {'step': step, 'w': w, 'fmt': fmt_eff, 'force': st['force'],
                  'before': sizes0, 'after': sizes1, 'written': sorted(written)}
        ctx.case(sig=('wm', st['force'], fmt_eff, step), case=case, klass='wm')
        # one file per logical Manifest, parents reference existing names
        logicals = {}
        for mp in update_post.manifest_files_on_disk(root) + list(sizes1):
            logicals.setdefault(logical(mp), set()).add(mp)
        for lg, names in logicals.items():
            if len(names) > 1:
                ctx.violation('two-files-for-one-manifest', 'after the save both %r '
                              'exist' % (sorted(names),), case, detail)
                return
        before_logical = {logical(x) for x in mans0}
        for mp in sizes1:
            if logical(mp) not in before_logical and not case.get('profile'):
                ctx.violation('manifest-name-changed', 'after the save the parents '
                              'reference %r; no Manifest of that name (in any format) '
                              'existed before: %r' % (mp, sorted(mans0)), case, detail)
                return
        for mp, sz in sizes1.items():
            if sz is None:
                ctx.violation('dangling-manifest-reference', 'a parent references %r '
                              'which cannot be read after the save' % mp, case, detail)
                return
        for mp in sizes1:
            if mp == 'Manifest':
                continue
            was = [x for x in mans0 if logical(x) == logical(mp)]
            rewritten = mp in written or any(x in written for x in was)
            if not rewritten:
                if was and was[0] != mp:
                    ctx.violation('renamed-without-rewrite', '%r -> %r without being '
                                  'written' % (was[0], mp), case, detail)
                    return
                continue
            ctx.count('wm_rewritten_manifests')
            compressed = mtext.suffix_of(mp) is not None
            want = sizes1[mp] >= w
            if compressed != want:
                ctx.violation('watermark-violated:' + ('not-compressed' if want
                                                       else 'not-decompressed'),
                              'rewritten sub-Manifest %r has uncompressed size %d, '
                              'watermark %d, but is %s' % (
                                  mp, sizes1[mp], w,
                                  'compressed' if compressed else 'plain'), case, detail)
                return
            if compressed and was and mtext.suffix_of(was[0]) and \
                    mtext.suffix_of(was[0]) != mtext.suffix_of(mp):
                ctx.violation('format-not-kept', 'already compressed %r was converted '
                              'to %r' % (was[0], mp), case, detail)
                return
            if compressed and (not was or not mtext.suffix_of(was[0])) and \
                    mtext.suffix_of(mp) != fmt_eff:
                ctx.violation('wrong-target-format', '%r compressed as %r, requested %r'
                              % (mp, mtext.suffix_of(mp), fmt_eff), case, detail)
                return
        if 'Manifest' not in sizes1 or mtext.suffix_of(
                [x for x in sizes1 if logical(x) == 'Manifest'][0]):
            ctx.violation('top-level-compressed', 'the top-level Manifest was compressed '
                          'or vanished', case, detail)
            return
        fk, fv = c03.fresh_verify(root, '')
        if fk == 'exc' or fv is not True:
            ctx.violation('tree-does-not-verify-after-save:' + (
                adapt.exc_key(fv) if fk == 'exc' else 'False'),
                'after save with watermark %r the tree no longer verifies: %r'
                % (w, fv), case, detail)
            return


def run_unit(u, ctx):
    for j in range(u['n']):
        rng = common.rng_for(ctx.seed, ID, u['i'], j)
        with common.Scratch('vf-c13-') as d:
            root = os.path.join(d, 't')
            nmut = rng.choice([0, 0, 1, 2])
            try:
                case, layout, info = scenario.build(
                    rng, root, ['content', 'size', 'delete', 'stray', 'm-digest',
                                'm-drop', 'm-ghost', 'm-compatible-dup',
                                'm-dup-manifest-entry', 'm-manifest-data-twin'], nmut,
                    {'p_split': 0.1, 'specials': False, 'p_mandir': 0.6,
                     'hostile': rng.choice([0, 0.3, 0.8])})
            except RuntimeError as exc:
                ctx.discarded('generator: %s' % exc)
                continue
            dirs = scenario.existing_dirs(root)
            files = sorted(info['listed'])
            case['kind'] = 'c13'
            case['layout'] = glayout.strip_private(layout)
            case['aseed'] = rng.randrange(1 << 30)
            case['max_assign'] = 25 if ctx.tier == 'quick' else 125
            case['probes'] = {
                'dirs': [''] + ([rng.choice(dirs)] if len(dirs) > 1 else []),
                'files': (rng.sample(files, min(3, len(files))) +
                          [m for m in layout['mans'] if m != 'Manifest'][:2] +
                          ['no/such/file']),
                'dists': [('dist-%d.tar.gz' % rng.randrange(1000), rng.choice(dirs))] +
                         [(e['path'], os.path.dirname(m))
                          for m, md in layout['mans'].items()
                          for e in md['entries'] if e['tag'] == 'DIST'][:2]}
            judge_meta(ctx, d, case, case['skel'], layout, list(case['ops']))
            # ---- watermark half on renderings that still verify (no mutation, or only
            # duplicate entries that agree)
            benign = ('m-compatible-dup', 'm-dup-manifest-entry', 'm-manifest-data-twin')
            if all(r.get('class') in benign for r in case['mutations']):
                saves = []
                for _ in range(rng.randint(2, 4)):
                    wk = rng.random()
                    if wk < 0.15:
                        w = 0
                    elif wk < 0.3:
                        w = 'max+1'
                    else:
                        w = ['size', rng.randrange(8), rng.choice([-1, 0, 1])]
                    saves.append({'w': w, 'fmt': rng.choice(['gz', 'bz2', 'lzma', 'xz']),
                                  'force': rng.random() < 0.6,
                                  'dirty': rng.random() < 0.6})
                if any(r.get('class') in ('m-dup-manifest-entry', 'm-manifest-data-twin')
                       for r in case['mutations']):
                    # two entries for one path in one Manifest: an *update* would run
                    # into the known same-Manifest-duplicate finding of C03 (D20);
                    # here only the save / re-compression path is under test
                    for st in saves:
                        st['dirty'] = False
                case['saves'] = saves
                case['one_loader'] = rng.random() < 0.5
                if rng.random() < 0.35:
                    # compression settings given to the constructor; some calls
                    # override them, the others rely on them
                    case['ctor'] = {'w': rng.choice([0, ['size', rng.randrange(8), 0],
                                                     10**6]),
                                    'fmt': rng.choice(['gz', 'bz2', 'lzma', 'xz'])}
                    for st in saves:
                        st['use_ctor'] = rng.random() < 0.5
                # (the ebuild profile would want Manifests of its own in some
                # directories; only use it where the tree has no sub-directories
                # the profile cares about: it is used for its option handling)
                # (a Manifest the profile newly creates in a directory that is also
                # visible through a directory symlink would be aliased: U15)
                case['profile'] = 'ebuild' if rng.random() < 0.3 and not case.get(
                    'ctor') and not any(
                    n['t'] == 'l' and n.get('kind') == 'dir'
                    for n in case['skel']['nodes']) else None
                judge_wm(ctx, root, case)
            if j == 0:
                ctx.sample({'mutations': case['mutations'], 'probes': case['probes'],
                            'saves': case.get('saves')}, 'c13')


def replay(case, ctx):
    with common.Scratch('vf-c13-') as d:
        root = os.path.join(d, 't')
        scenario.rebuild(root, case)
        judge_meta(ctx, d, case, case['skel'], case['layout'], list(case['ops']))
        if case.get('saves'):
            judge_wm(ctx, root, case)
