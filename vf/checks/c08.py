"""C08 - Manifest text round-trips: writer and parser are mutual inverses.

Workload kinds (units):
  cp    every code point in a range, alone and between hex-digit-like
        neighbours, written and re-read by the real ManifestFile (exhaustive)
  rand  random entry lists over a hostile alphabet, all eight tags
  fix   texts accepted by the parser (C09's grammar + mutation generators):
        dump(load(T)) must be accepted again with equal entries and be a
        fixed point
  file  the same through real files in plain/gz/bz2/lzma/xz
An independent reader (vf.model.mtext) re-parses every line gemato wrote.
A contract on ManifestPathEntry.encoded_path is evaluated on every call.
"""
import io
import os

from vf import adapt, common
from vf.gen import mtextgen
from vf.model import classify, mtext
from vf.mon import contracts

ID = 'C08'
LEVEL = 'exploration'
RULE = ('units: cp = every code point 0..0x10FFFF in 5 contexts (alone, a?b, 0?0, '
        'F?F, \\?x41) dumped+loaded by gemato in batches (distinct by '
        'construction); rand = seeded random entry lists (all 8 tags, hostile '
        'paths, sizes to >2**64, 0-10 checksums, timestamps years 1..9999); fix = '
        'parser-accepted grammar/mutation texts re-dumped to a fixed point; file = '
        'round trip through real files per compression format; interleaved = two files '
        '(all 25 format pairs) open at the same time; TIMESTAMP lists repeated under 3 '
        'other TZ settings; microsecond timestamps; native == after reload. Non-trivial '
        '= every '
        'case whose entry list is non-empty; distinct = distinct entry lists / texts '
        '(hash of the materialised case).')
ANCHORS = ['manifest:ManifestFile.load', 'manifest:ManifestFile.dump',
           'manifest:ManifestPathEntry.encode_char',
           'manifest:ManifestPathEntry.decode_char',
           'compression:open_potentially_compressed_path']
REQUIRED = ['manifest:ManifestFile.load', 'manifest:ManifestFile.dump',
            'contract:encoded_path', 'redump_checked', 'native_equality_checks',
            'interleaved_checked', 'timestamp_roundtrips_other_tz',
            'surrogate_pair_paths', 'long_line_entries']
ASSUMPTIONS = ['timestamps are naive datetimes (taken as UTC), with or without '
               'microseconds; timezone-aware values are not generated',
               'checksum names/values are non-empty tokens without whitespace']
CONTEXTS = [('', ''), ('a', 'b'), ('0', '0'), ('F', 'F'), ('\\', 'x41')]
FORMATS = ['plain', 'gz', 'bz2', 'lzma', 'xz']


def EXHAUSTIVE(tier):
    return ('every code point 0..0x10FFFF x 5 neighbour contexts as DATA path, '
            'in-memory dump+load')


def units(tier, seed):
    u = []
    step = 0x2000
    for lo in range(0, 0x110000, step):
        u.append({'k': 'cp', 'lo': lo, 'hi': min(lo + step, 0x110000)})
    if tier == 'thorough':
        # every code point through a real file of every format as well
        for lo in range(0, 0x110000, 0x4000):
            u.append({'k': 'cpfile', 'lo': lo, 'hi': min(lo + 0x4000, 0x110000)})
    else:
        for lo in (0, 0x2000, 0xd800, 0x3000, 0x10c000):
            u.append({'k': 'cpfile', 'lo': lo, 'hi': lo + 0x400})
    nrand, nfix, nfile = (300, 300, 60) if tier == 'quick' else (12000, 12000, 1500)
    for i in range(nrand):
        u.append({'k': 'rand', 'i': i, 'n': 20})
    for i in range(nfix):
        u.append({'k': 'fix', 'i': i, 'n': 40})
    for i in range(nfile):
        u.append({'k': 'file', 'i': i, 'n': 4})
    u.append({'k': 'special'})
    # all 25 format pairs x 2 usage patterns at least once
    for i in range(50 if tier == 'quick' else 1000):
        u.append({'k': 'interleaved', 'i': i, 'n': 1 if tier == 'quick' else 3})
    return u


def setup_worker(ctx):
    common.use_repo()
    contracts.install_encoded_path(ctx)


# ------------------------------------------------------------ core oracle

def g_dump(entries_g, sort=False):
    from gemato.manifest import ManifestFile
    m = ManifestFile()
    m.entries = list(entries_g)
    f = io.StringIO()
    m.dump(f, sign_openpgp=False, sort=sort)
    return f.getvalue()


def g_load(text):
    from gemato.manifest import ManifestFile
    m = ManifestFile()
    m.load(io.StringIO(text), verify_openpgp=False)
    return m.entries


def check_lines(text, n_entries):
    """Shape of written text: one line per entry, single U+0020 separators."""
    if n_entries == 0:
        return None if text == '' else 'non-empty text for no entries'
    if not text.endswith('\n'):
        return 'no final newline'
    lines = text[:-1].split('\n')
    if len(lines) != n_entries:
        return '%d lines for %d entries' % (len(lines), n_entries)
    for ln in lines:
        if ln.split(' ') != ln.split():
            return 'fields not separated by single spaces: %r' % ln
        if len(ln.splitlines()) != 1:
            return 'line contains a line-break character: %r' % ln
    return None


def roundtrip(ctx, entries_m, case, kind):
    """entries_m: model dicts.  Returns True if everything held."""
    try:
        eg = [adapt.to_gemato(e) for e in entries_m]
    except Exception as exc:
        ctx.count('harness_error')
        ctx.extra.setdefault('harness_errors', []).append(repr(exc))
        return False
    want = [adapt.norm_model(e) for e in entries_m]
    try:
        text = g_dump(eg)
    except Exception as exc:
        ctx.violation('dump-raises:' + adapt.exc_key(exc),
                      'writer raised %r for constructible entries' % (exc,),
                      case)
        return False
    why = check_lines(text, len(want))
    if why:
        ctx.violation('line-shape', why, case, {'text': text})
        return False
    # independent reader on what gemato wrote
    try:
        got_m = [adapt.norm_model(e) for e in mtext.parse(text)]
    except mtext.ReadError as exc:
        ctx.violation('written-text-unreadable',
                      'independent reader cannot parse written text: %s' % exc,
                      case, {'text': text})
        return False
    if got_m != want:
        ctx.violation('written-text-differs',
                      'independent reader sees other entries than were written',
                      case, {'text': text, 'want': want, 'got': got_m})
        return False
    try:
        back = [adapt.norm_gemato(e) for e in g_load(text)]
    except Exception as exc:
        ctx.violation('reload-raises:' + adapt.exc_key(exc),
                      'parser rejects text the writer produced: %r' % (exc,),
                      case, {'text': text})
        return False
    if back != want:
        ctx.violation('roundtrip-differs', 'load(dump(E)) != E', case,
                      {'text': text, 'want': want, 'got': back})
        return False
    # ... and equal by the library's own notion of equality
    reloaded = list(g_load(text))
    ctx.count('native_equality_checks')
    for a, b in zip(eg, reloaded):
        if not (a == b) or not (b == a):
            ctx.violation('roundtrip-not-equal:' + a.tag,
                          'entry read back does not compare equal (==) to the entry '
                          'written: %r vs %r' % (a.to_list(), getattr(a, 'ts', None)),
                          case, {'text': text})
            return False
    return True


def redump_after_edit(ctx, entries_m, case):
    """History on live entry objects: dump, change a path in place (as the loader
    does when a Manifest is renamed), dump again: the second text must carry the
    new path."""
    idx = [i for i, e in enumerate(entries_m) if e['tag'] not in ('TIMESTAMP', 'AUX')]
    if not idx:
        return
    try:
        eg = [adapt.to_gemato(e) for e in entries_m]
        g_dump(eg)
        i = idx[len(entries_m) % len(idx)]
        newpath = eg[i].path + 'Z' if not eg[i].path.endswith('/') else eg[i].path + 'Z'
        eg[i].path = newpath
        t2 = g_dump(eg)
        got = mtext.parse(t2)
    except Exception as exc:
        ctx.violation('redump-raises:' + adapt.exc_key(exc), 'second dump after an '
                      'in-place path change raised %r' % (exc,), case)
        return
    ctx.count('redump_checked')
    if len(got) != len(entries_m) or got[i].get('path') != newpath:
        ctx.violation('stale-written-path', 'entry path changed in place to %r but the '
                      'next dump still wrote %r' % (
                          newpath, got[i].get('path') if i < len(got) else None), case)


def fixed_point(ctx, text, case):
    """@text is accepted by the parser: re-dump must be accepted, equal, stable."""
    try:
        e0 = g_load(text)
    except Exception:
        return None
    n0 = [adapt.norm_gemato(e) for e in e0]
    try:
        t1 = g_dump(e0)
    except Exception as exc:
        ctx.violation('fix-dump-raises:' + adapt.exc_key(exc),
                      'writer raised on entries the parser produced: %r' % (exc,),
                      case)
        return False
    why = check_lines(t1, len(n0))
    if why:
        ctx.violation('line-shape', why, case, {'text': t1})
        return False
    try:
        e1 = g_load(t1)
    except Exception as exc:
        ctx.violation('fix-reload-raises:' + adapt.exc_key(exc),
                      'parser accepted T but rejects dump(load(T)): %r' % (exc,),
                      case, {'t1': t1})
        return False
    n1 = [adapt.norm_gemato(e) for e in e1]
    if n1 != n0:
        ctx.violation('fix-entries-differ', 'load(dump(load(T))) != load(T)',
                      case, {'t1': t1, 'n0': n0, 'n1': n1})
        return False
    t2 = g_dump(e1)
    if t2 != t1:
        ctx.violation('fix-not-stable', 'dump is not a fixed point on 2nd pass',
                      case, {'t1': t1, 't2': t2})
        return False
    return True


def file_roundtrip(ctx, entries_m, fmt, case, accepted_text=None):
    from gemato.compression import open_potentially_compressed_path
    from gemato.manifest import ManifestFile
    want = [adapt.norm_model(e) for e in entries_m]
    with common.Scratch('vf-c08-') as d:
        name = 'Manifest' + ('' if fmt == 'plain' else '.' + fmt)
        path = os.path.join(d, name)
        m = ManifestFile()
        try:
            m.entries = [adapt.to_gemato(e) for e in entries_m]
            with open_potentially_compressed_path(path, 'w',
                                                  encoding='utf8') as f:
                m.dump(f, sign_openpgp=False)
        except Exception as exc:
            ctx.violation('file-dump-raises:' + adapt.exc_key(exc) +
                          ':' + type(exc).__name__,
                          'writing entries to a real %s file raised %r'
                          % (fmt, exc), case)
            return False
        # independent read of the file
        try:
            got_m = [adapt.norm_model(e) for e in mtext.parse_file(path)]
        except Exception as exc:
            ctx.violation('file-unreadable', 'independent reader failed on the '
                          '%s file: %r' % (fmt, exc), case)
            return False
        if got_m != want:
            ctx.violation('file-differs', 'independent reader sees other entries '
                          'in the %s file' % fmt, case,
                          {'want': want, 'got': got_m})
            return False
        m2 = ManifestFile()
        try:
            with open_potentially_compressed_path(path, 'r',
                                                  encoding='utf8') as f:
                m2.load(f, verify_openpgp=False)
        except Exception as exc:
            ctx.violation('file-reload-raises:' + adapt.exc_key(exc),
                          'reading back the %s file raised %r' % (fmt, exc), case)
            return False
        back = [adapt.norm_gemato(e) for e in m2.entries]
        if back != want:
            ctx.violation('file-roundtrip-differs',
                          'entries differ after a round trip through %s' % fmt,
                          case, {'want': want, 'got': back})
            return False
    return True


def interleaved_roundtrip(ctx, ents_a, ents_b, fmt_a, fmt_b, pattern, case):
    """Two Manifest files (any formats) in use at the same time in one process:
    handles obtained before either is used, or one written / read while the other
    is still open.  Each file must hold, and give back, its own entries."""
    from gemato.compression import open_potentially_compressed_path as opcp
    from gemato.manifest import ManifestFile
    want = {'a': [adapt.norm_model(e) for e in ents_a],
            'b': [adapt.norm_model(e) for e in ents_b]}
    with common.Scratch('vf-c08i-') as d:
        os.mkdir(os.path.join(d, 'ra'))
        os.mkdir(os.path.join(d, 'rb'))
        pa = os.path.join(d, 'ra', 'Manifest' + ('' if fmt_a == 'plain' else '.' + fmt_a))
        pb = os.path.join(d, 'rb', 'Manifest' + ('' if fmt_b == 'plain' else '.' + fmt_b))
        ma, mb = ManifestFile(), ManifestFile()
        ma.entries = [adapt.to_gemato(e) for e in ents_a]
        mb.entries = [adapt.to_gemato(e) for e in ents_b]
        got = {}
        try:
            # ---- writing
            if pattern == 'handles-first':
                ha = opcp(pa, 'w', encoding='utf8')
                hb = opcp(pb, 'w', encoding='utf8')
                with ha as f:
                    ma.dump(f, sign_openpgp=False)
                with hb as f:
                    mb.dump(f, sign_openpgp=False)
            else:
                with opcp(pa, 'w', encoding='utf8') as fa:
                    with opcp(pb, 'w', encoding='utf8') as fb:
                        mb.dump(fb, sign_openpgp=False)
                    ma.dump(fa, sign_openpgp=False)
            disk = {'a': [adapt.norm_model(e) for e in mtext.parse_file(pa)],
                    'b': [adapt.norm_model(e) for e in mtext.parse_file(pb)]}
            # ---- reading
            ra, rb = ManifestFile(), ManifestFile()
            if pattern == 'handles-first':
                ha = opcp(pa, 'r', encoding='utf8')
                hb = opcp(pb, 'r', encoding='utf8')
                with ha as f:
                    ra.load(f, verify_openpgp=False)
                with hb as f:
                    rb.load(f, verify_openpgp=False)
            else:
                with opcp(pa, 'r', encoding='utf8') as fa:
                    with opcp(pb, 'r', encoding='utf8') as fb:
                        rb.load(fb, verify_openpgp=False)
                    ra.load(fa, verify_openpgp=False)
            got = {'a': [adapt.norm_gemato(e) for e in ra.entries],
                   'b': [adapt.norm_gemato(e) for e in rb.entries]}
        except Exception as exc:
            ctx.violation('interleaved-raises:' + adapt.exc_key(exc), 'two Manifest '
                          'files (%s, %s) used at the same time (%s): %r'
                          % (fmt_a, fmt_b, pattern, exc), case)
            return False
        ctx.count('interleaved_checked')
        for k in ('a', 'b'):
            if disk[k] != want[k]:
                ctx.violation('interleaved-file-differs', 'file %s (%s/%s, %s) does not '
                              'hold the entries written to it' % (k, fmt_a, fmt_b,
                                                                 pattern), case)
                return False
            if got[k] != want[k]:
                ctx.violation('interleaved-read-differs', 'reading file %s (%s/%s, %s) '
                              'gave other entries than it holds' % (k, fmt_a, fmt_b,
                                                                   pattern), case)
                return False
    return True


def run_special(u, ctx):
    """Paths no random draw is likely to produce: a high surrogate directly followed
    by a low one (two code points, not one astral character), and lines far longer
    than any read buffer (a long plain path, a long path that needs an escape for
    every character, many long checksum values)."""
    highs = [0xd800, 0xd801, 0xd83d, 0xdb7f, 0xdb80, 0xdbff]
    lows = [0xdc00, 0xdc01, 0xde00, 0xdf7f, 0xdf80, 0xdfff]
    ents = []
    for h in highs:
        for lo in lows:
            pair = chr(h) + chr(lo)
            ents.append({'tag': 'DATA', 'path': pair, 'size': h, 'sums': {}})
            ents.append({'tag': 'IGNORE', 'path': 'a' + pair + 'b'})
            ents.append({'tag': 'AUX', 'path': chr(lo) + chr(h) + pair, 'size': 1,
                         'sums': {}})
            ents.append({'tag': 'MANIFEST', 'path': pair + '/' + pair, 'size': 2,
                         'sums': {'MD5': 'ab' * 16}})
    for i in range(0, len(ents), 24):
        exec_case({'kind': 'rand', 'entries': ents[i:i + 24]}, ctx)
    ctx.count('surrogate_pair_paths', len(ents))
    for n in (8000, 16384, 20000, 65536, 70000, 200000):
        longs = [{'tag': 'DATA', 'path': 'p' * n, 'size': n, 'sums': {}},
                 {'tag': 'IGNORE', 'path': 'd/' + 'q' * n},
                 {'tag': 'DATA', 'path': ' ' * (n // 6), 'size': 1, 'sums': {}},
                 {'tag': 'DIST', 'path': 'x.tar', 'size': 3,
                  'sums': {'SHA512': 'a' * n, 'MD5': 'b' * 32}}]
        for e in longs:
            exec_case({'kind': 'rand', 'entries': [e, {'tag': 'IGNORE', 'path': 'z'}]}, ctx)
            for fmt in ('plain', 'gz'):
                exec_case({'kind': 'file', 'fmt': fmt, 'entries': [e]}, ctx)
        ctx.count('long_line_entries', len(longs))
    # Manifests with many entries (any internal batching of the writer has to keep
    # one entry per line at every boundary)
    for n in (1023, 1024, 1025, 2048, 2049, 4097, 10001):
        many = [{'tag': 'DATA', 'path': 'f%05d' % i, 'size': i, 'sums': {'MD5': 'ab' * 16}}
                for i in range(n)]
        exec_case({'kind': 'rand', 'entries': many}, ctx)
        exec_case({'kind': 'file', 'fmt': 'plain', 'entries': many}, ctx)
        exec_case({'kind': 'file', 'fmt': 'xz', 'entries': many}, ctx)
        ctx.count('many_entry_manifests')


def run_interleaved(u, ctx):
    for j in range(u['n']):
        rng = common.rng_for(ctx.seed, ID, 'inter', u['i'], j)
        ea = mtextgen.rand_entries(rng, hostile=0.5) or [mtextgen.rand_entry(rng)]
        eb = mtextgen.rand_entries(rng, hostile=0.5) or [mtextgen.rand_entry(rng)]
        case = {'kind': 'interleaved', 'a': ea, 'b': eb,
                'fmt_a': FORMATS[(u['i'] + j) % len(FORMATS)],
                'fmt_b': FORMATS[(u['i'] // len(FORMATS) + j) % len(FORMATS)],
                'pattern': ['handles-first', 'nested'][(u['i'] + j) % 2]}
        exec_case(case, ctx)


# ------------------------------------------------------------------ units

def run_cp(u, ctx):
    batch = []
    for cp in range(u['lo'], u['hi']):
        ch = chr(cp)
        for pre, post in CONTEXTS:
            p = pre + ch + post
            if p.startswith('/'):
                p = 'd' + p     # an absolute path is not a legal entry path
            batch.append({'tag': 'DATA', 'path': p, 'size': cp, 'sums': {}})
        # ... and as the last character of a line (IGNORE has no field after the path)
        batch.append({'tag': 'IGNORE', 'path': 'p' + ch})
        if len(batch) >= 1000:
            _cp_batch(ctx, batch)
            batch = []
    if batch:
        _cp_batch(ctx, batch)


def _cp_batch(ctx, batch):
    case = {'kind': 'cp', 'entries': batch}
    ok = roundtrip(ctx, batch, case, 'cp')
    if not ok:
        # narrow down: re-run one by one so the replay is minimal
        ctx.violations = [v for v in ctx.violations if v['case'] is not case]
        for e in batch:
            roundtrip(ctx, [e], {'kind': 'cp', 'entries': [e]}, 'cp')
    n = len(batch)
    ctx.counters['evaluations'] += n
    ctx.enumerated += n
    ctx.counters['class:codepoint-context'] += n
    ctx.signatures.add('cp-batch')
    if batch[0].get('size', 1) % 0x8000 == 0:
        ctx.sample({'kind': 'cp', 'entries': batch[:3]}, 'cp')


def run_cpfile(u, ctx):
    """Code points through real (UTF-8 encoded, possibly compressed) files."""
    ents = []
    for cp in range(u['lo'], u['hi']):
        p = 'q' + chr(cp) + 'r'
        ents.append({'tag': 'DATA', 'path': p, 'size': cp, 'sums': {}})
    fmt = FORMATS[(u['lo'] // 0x400) % len(FORMATS)]
    fmts = FORMATS if ctx.tier == 'thorough' else [fmt]
    for f in fmts:
        case = {'kind': 'file', 'fmt': f, 'entries': ents}
        n0 = len(ctx.violations)
        ok = file_roundtrip(ctx, ents, f, case)
        if not ok:
            # minimise: find one offending entry
            del ctx.violations[n0:]
            for e in ents:
                if not file_roundtrip(ctx, [e], f, {'kind': 'file', 'fmt': f,
                                                    'entries': [e]}):
                    break
        ctx.counters['evaluations'] += len(ents)
        ctx.enumerated += len(ents)
        ctx.counters['class:codepoint-file-' + f] += len(ents)


def run_rand(u, ctx):
    for j in range(u['n']):
        rng = common.rng_for(ctx.seed, ID, 'rand', u['i'], j)
        ents = mtextgen.rand_entries(rng, hostile=rng.choice([0.1, 0.5, 0.9]))
        if rng.random() < 0.2:
            rng.shuffle(ents)
        case = {'kind': 'rand', 'entries': ents}
        exec_case(case, ctx)


def run_fix(u, ctx):
    for j in range(u['n']):
        rng = common.rng_for(ctx.seed, ID, 'fix', u['i'], j)
        text = mtextgen.grammar_text(rng)
        if rng.random() < 0.4:
            t2 = mtextgen.mutate_text(rng, text)
            if t2 is None:
                ctx.discarded('mutant not utf-8')
                continue
            text = t2
        case = {'kind': 'fix', 'text': text}
        exec_case(case, ctx)


def run_file(u, ctx):
    for j in range(u['n']):
        rng = common.rng_for(ctx.seed, ID, 'file', u['i'], j)
        x = rng.random()
        if x < 0.25:
            # boundary classes: one entry per interesting character
            chars = rng.sample(mtextgen.HOSTILE_CHARS, 6)
            ents = [{'tag': 'DATA', 'path': 'p' + c + 'q', 'size': 1, 'sums': {}}
                    for c in chars]
        else:
            ents = mtextgen.rand_entries(rng, hostile=0.6)
        for fmt in FORMATS:
            exec_case({'kind': 'file', 'fmt': fmt, 'entries': ents}, ctx)
        if rng.random() < 0.5:
            text = mtextgen.grammar_text(rng)
            exec_case({'kind': 'filefix', 'fmt': rng.choice(FORMATS),
                       'text': text}, ctx)


def exec_case(case, ctx):
    k = case['kind']
    if k in ('rand', 'cp'):
        ents = case['entries']
        tags = sorted({e['tag'] for e in ents})
        ctx.case(sig=('rand', tuple(tags), len(ents) > 5), case=case,
                 nontrivial=bool(ents), klass=k)
        roundtrip(ctx, ents, case, k)
        if k == 'rand' and any(e['tag'] == 'TIMESTAMP' for e in ents):
            # the text form is UTC whatever the local time zone of the process is
            import time
            old_tz = os.environ.get('TZ')
            try:
                for tz in ('XXX-5', 'XXX8', 'CET-1CEST,M3.5.0,M10.5.0/3'):
                    os.environ['TZ'] = tz
                    time.tzset()
                    ctx.count('timestamp_roundtrips_other_tz')
                    if not roundtrip(ctx, ents, dict(case, tz=tz), k):
                        break
            finally:
                if old_tz is None:
                    os.environ.pop('TZ', None)
                else:
                    os.environ['TZ'] = old_tz
                time.tzset()
        if ents:
            redump_after_edit(ctx, ents, case)
            ctx.sample(case, k)
    elif k == 'fix':
        verdict, _, reasons = classify.classify_text(case['text'])
        r = fixed_point(ctx, case['text'], case)
        if r is None:
            ctx.case(nontrivial=False, klass='fix-rejected')
        else:
            ctx.case(sig=('fix', verdict), case=case, klass='fix-accepted')
            ctx.count('fixpoint_checked')
            ctx.sample(case, 'fix')
    elif k == 'file':
        ctx.case(sig=('file', case['fmt']), case=case,
                 nontrivial=bool(case['entries']), klass='file-' + case['fmt'])
        file_roundtrip(ctx, case['entries'], case['fmt'], case)
        if case['entries']:
            ctx.sample(case, 'file')
    elif k == 'interleaved':
        ctx.case(sig=('interleaved', case['fmt_a'], case['fmt_b'], case['pattern']),
                 case=case, klass='interleaved')
        interleaved_roundtrip(ctx, case['a'], case['b'], case['fmt_a'], case['fmt_b'],
                              case['pattern'], case)
    elif k == 'filefix':
        try:
            e0 = g_load(case['text'])
        except Exception:
            ctx.case(nontrivial=False, klass='filefix-rejected')
            return
        ents = []
        for e in e0:
            n = adapt.norm_gemato(e)
            if n[0] == 'TIMESTAMP':
                ents.append({'tag': n[0], 'ts': n[1]})
            elif n[0] == 'IGNORE':
                ents.append({'tag': n[0], 'path': n[1]})
            else:
                p = n[1][6:] if n[0] == 'AUX' else n[1]
                ents.append({'tag': n[0], 'path': p, 'size': n[2],
                             'sums': dict(n[3])})
        ctx.case(sig=('filefix', case['fmt']), case=case, nontrivial=bool(ents),
                 klass='filefix')
        file_roundtrip(ctx, ents, case['fmt'], case)


def run_unit(u, ctx):
    {'cp': run_cp, 'rand': run_rand, 'fix': run_fix, 'file': run_file,
     'cpfile': run_cpfile, 'interleaved': run_interleaved,
     'special': run_special}[u['k']](u, ctx)


def replay(case, ctx):
    if case['kind'] == 'cp':
        roundtrip(ctx, case['entries'], case, 'cp')
    else:
        exec_case(case, ctx)
