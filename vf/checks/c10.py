"""C10 - update never touches what it does not own.

Random operation histories on one real loader (verify / lookups / update dir /
update path / save / discard, including updates that fail part-way) and CLI
updates are observed by WriteAudit (every write-intent event the interpreter
performs, tagged with the history phase) and by full before/after snapshots;
Manifest-level conservation (DIST, IGNORE, TIMESTAMP lines, entry types,
out-of-scope entries) is checked offline with the independent reader.
"""
import collections
import logging
import os

from vf import adapt, common
from vf.checks import c03
from vf.gen import mutate as gmutate
from vf.gen import scenario
from vf.gen import tree as gtree
from vf.model import mtext
from vf.model import update_post
from vf.mon import audit, failpoints

ID = 'C10'
LEVEL = 'exploration'
RULE = ('history = seeded tree + prior Manifest state + 3..8 operations on one loader '
        'from {verify dir, verify path, find_path_entry, find_dist_entry, update dir, '
        'update path, save, discard} with whole-tree / sub-directory scopes, optional '
        'failing ingredient (entry naming a directory, cross-device link with '
        'allow_xdev=False, symlink loop, one injected I/O error); or one CLI update '
        '(with / without -t, whole tree / sub-directory). Non-trivial = at least one '
        'update or save was executed; distinct = hash of the materialised history.')
ANCHORS = ['recursiveloader:ManifestRecursiveLoader.save_manifests',
           'recursiveloader:ManifestRecursiveLoader.save_manifest',
           'recursiveloader:ManifestRecursiveLoader.update_entries_for_directory',
           'recursiveloader:ManifestRecursiveLoader.update_entry_for_path',
           'recursiveloader:ManifestRecursiveLoader.set_timestamp',
           'cli:UpdateCommand.__call__']
REQUIRED = ['recursiveloader:ManifestRecursiveLoader.save_manifests',
            'presave_phases_audited', 'saves_audited', 'conservation_checked',
            'failing_updates', 'cli_histories', 'cli_multi_histories',
            'histories_in_other_tz', 'histories_with_profile', 'adopt_cases',
            'createfault_fired', 'dangling_cases', 'signfail_cases', 'forcestale_cases',
            'locale_cases', 'adopt_ignored_file_cases', 'sharedsum_cases']
ASSUMPTIONS = ['writes by child processes are invisible to the audit hook; the '
               'snapshot comparison covers them',
               '"Manifest file" = a file named Manifest[.gz|.bz2|.lzma|.xz] or referenced '
               'by a MANIFEST entry before or after the operation']

PRIOR = ['content', 'size', 'delete', 'stray', 'retype', 'm-digest', 'm-drop', 'm-ghost',
         'm-compatible-dup', 'm-conflict', 'm-chain', 'm-dup-ignore', 'unreg-valid',
         'unreg-invalid', 'm-entry-for-dir', 'm-manifest-as-data-only',
         'm-dist-same-name', 'm-dist-same-name']
OPS = ['verify-dir', 'verify-path', 'find-path', 'find-dist', 'update-dir', 'update-dir',
       'update-path', 'save', 'save']
N = {'quick': 1500, 'thorough': 50000}
PER_UNIT = 15


def units(tier, seed):
    return [{'k': 'gen', 'i': i, 'n': PER_UNIT} for i in range(N[tier] // PER_UNIT)] + \
        [{'k': 'multi', 'i': i, 'n': 6} for i in range(4 if tier == 'quick' else 100)] + \
        [{'k': 'adopt'}, {'k': 'createfault'}, {'k': 'dangling'}, {'k': 'signfail'},
         {'k': 'forcestale'}, {'k': 'locale'}, {'k': 'sharedsum'}]


def setup_worker(ctx):
    common.use_repo()
    logging.getLogger().setLevel(logging.CRITICAL)
    audit.install()


def manifest_state(root):
    """{mpath: entries} for every Manifest reachable from the top + every file with
    a Manifest name that parses."""
    mans, _ = update_post.reachable_manifests(root, 'Manifest')
    for mp in update_post.manifest_files_on_disk(root):
        if mp not in mans:
            try:
                mans[mp] = mtext.parse_file(os.path.join(root, mp))
            except Exception:
                pass
    # ... and whatever those list by MANIFEST entries in turn (a Manifest that is not
    # reachable from the top right now may still head a chain of its own)
    todo = list(mans)
    while todo:
        mp = todo.pop()
        mdir = os.path.dirname(mp)
        for e in mans[mp]:
            if e['tag'] != 'MANIFEST':
                continue
            full = mtext.full_path(mdir, e)
            if full in mans or not mmatch_normalised(full):
                continue
            try:
                mans[full] = mtext.parse_file(os.path.join(root, full))
                todo.append(full)
            except Exception:
                pass
    return mans


def mmatch_normalised(p):
    return p == os.path.normpath(p) and not p.startswith('../') and not p.startswith('/')


def manifest_file_names(root, mans):
    names = set()
    for mp in mans:
        base = mp
        sfx = mtext.suffix_of(mp)
        if sfx:
            base = mp[:-len(sfx) - 1]
        names.add(base)
        for s in mtext.SUFFIXES:
            names.add(base + '.' + s)
    for mp in update_post.manifest_files_on_disk(root):
        names.add(mp)
    return names


def listed_as(mans, path):
    """Tags of the file entries naming @path in the Manifest files @mans."""
    tags = set()
    for mp, ents in mans.items():
        mdir = os.path.dirname(mp)
        for e in ents:
            if e['tag'] in mtext.FILE_TAGS and mtext.full_path(mdir, e) == path:
                tags.add(e['tag'])
    return tags


def overwritten_by_profile_manifest(mans0, mans1, tag):
    """Files that lost @tag lines and were, before, files with a compressed Manifest
    name listed only by non-MANIFEST entries (data files as far as verification is
    concerned) in a directory without any other Manifest, and are the directory's
    MANIFEST-referenced Manifest now: the profile created `Manifest` next to such a
    file and its compression renamed it over the file (known finding D33).
    -> (those files, every file that lost lines)"""
    losers, hit = set(), set()
    for mp, ents in mans0.items():
        a = collections.Counter(mtext.entry_line(e) for e in ents if e['tag'] == tag)
        b = collections.Counter(mtext.entry_line(e) for e in mans1.get(mp, [])
                                if e['tag'] == tag)
        if a - b:
            losers.add(mp)
            t0 = listed_as(mans0, mp)
            alone = not any(os.path.dirname(o) == os.path.dirname(mp) and o != mp
                            for o in mans0)
            if mtext.suffix_of(mp) and t0 and 'MANIFEST' not in t0 and alone \
                    and 'MANIFEST' in listed_as(mans1, mp):
                hit.add(mp)
    return hit, losers


def lines_of(mans, tag):
    c = collections.Counter()
    for mp, ents in mans.items():
        for e in ents:
            if e['tag'] == tag:
                c[mtext.entry_line(e)] += 1
    return c


def file_entries(mans):
    out = {}
    for mp, ents in mans.items():
        mdir = os.path.dirname(mp)
        for e in ents:
            if e['tag'] in mtext.FILE_TAGS:
                out.setdefault(mtext.full_path(mdir, e), []).append(
                    (e['tag'], e['size'], tuple(sorted(e['sums'].items()))))
    return out


def do_op(ctx, m, root, op, case):
    """Execute one history step.  -> 'ok' / 'raised'"""
    k = op['op']
    try:
        if k == 'verify-dir':
            m.assert_directory_verifies(op['path'], fail_handler=lambda e: True)
        elif k == 'verify-path':
            m.verify_path(op['path'])
        elif k == 'find-path':
            m.find_path_entry(op['path'])
        elif k == 'find-dist':
            m.find_dist_entry(op['path'], op.get('rel', ''))
        elif k == 'update-dir':
            if op.get('fault'):
                with failpoints.Failpoints(root, tuple(op['fault'][:2]),
                                           op['fault'][2]):
                    m.update_entries_for_directory(op['path'])
            else:
                m.update_entries_for_directory(op['path'])
        elif k == 'update-path':
            m.update_entry_for_path(op['path'])
        elif k == 'save':
            m.save_manifests(force=op.get('force', False))
        return 'ok'
    except Exception as exc:
        from gemato.exceptions import GematoException
        if not isinstance(exc, (GematoException, OSError)):
            ctx.count('internal_error:' + adapt.exc_key(exc))
        return 'raised'


class RecordingDict(dict):
    """loaded_manifests replacement remembering every key it ever held."""

    def __init__(self, init, seen):
        dict.__init__(self, init)
        self.seen = seen
        seen.update(init)

    def __setitem__(self, k, v):
        self.seen.add(k)
        dict.__setitem__(self, k, v)

    def update(self, *a, **kw):
        tmp = dict(*a, **kw)
        self.seen.update(tmp)
        dict.update(self, tmp)

    def setdefault(self, k, d=None):
        self.seen.add(k)
        return dict.setdefault(self, k, d)


class LoadedAtSave:
    """Records which Manifests the loader ever held (the entries gemato knows about
    are the entries of those)."""

    def __enter__(self):
        from gemato.recursiveloader import ManifestRecursiveLoader as L
        self.cls = L
        self.orig = L.__init__
        self.orig_save = L.save_manifests
        self.seen = set()       # every Manifest the loader ever held
        self.loaded = set()     # ... up to the end of the last save
        tracker = self

        def save_manifests(loader, *a, **kw):
            try:
                return tracker.orig_save(loader, *a, **kw)
            finally:
                # (Manifests picked up AFTER the last save played no part in what
                # was written)
                tracker.loaded.update(tracker.seen)
        L.save_manifests = save_manifests

        def __init__(loader, *a, **kw):
            # (the constructor loads the top-level Manifest: install first)
            loader.loaded_manifests = RecordingDict({}, tracker.seen)
            tracker.orig(loader, *a, **kw)
            if not isinstance(loader.loaded_manifests, RecordingDict):
                loader.loaded_manifests = RecordingDict(loader.loaded_manifests,
                                                        tracker.seen)
        L.__init__ = __init__
        return self

    def __exit__(self, *exc):
        self.cls.__init__ = self.orig
        self.cls.save_manifests = self.orig_save


def beneath_any(path, scopes):
    return any(mtext.comp_prefix(path, s) for s in scopes)


def judge(ctx, root, case):
    with LoadedAtSave() as tracker:
        return judge1(ctx, root, case, tracker)


def judge1(ctx, root, case, tracker):
    from gemato.recursiveloader import ManifestRecursiveLoader
    snap0 = gtree.snapshot(root)
    mans0 = manifest_state(root)
    case.pop('_update_raised', None)
    case['_crowded'] = bool(c03.crowded_dirs(root))
    mnames = manifest_file_names(root, mans0)
    did_update = False
    scopes = []
    saved = False
    cli = case.get('cli')
    detail = {}
    if cli:
        from gemato import cli as gcli
        argv = ['gemato', 'update', '--hashes', ' '.join(case['hashes'])]
        if cli.get('t'):
            argv.append('-t')
        if case.get('watermark') is not None:
            argv += ['-c', str(case['watermark']), '-C', case['format']]
        if case.get('profile'):
            argv += ['-p', case['profile']]
        argv.append(os.path.join(root, cli['scope']) if cli['scope'] else root)
        with audit.Recording(root) as rec:
            try:
                rc = gcli.main(argv)
            except SystemExit as exc:
                rc = 'exit'
            except Exception as exc:
                rc = exc
        ctx.count('cli_histories')
        did_update = True
        saved = True        # the command may have entered its save step
        scopes = [cli['scope']]
        save_events = rec.events
        detail['rc'] = repr(rc)
        ctx.count('saves_audited')
    else:
        kw = {}
        if case.get('no_xdev'):
            kw['allow_xdev'] = False
        if case.get('watermark') is not None:
            kw['compress_watermark'] = case['watermark']
            kw['compress_format'] = case['format']
        if case.get('profile'):
            from gemato.profile import get_profile_by_name
            kw['profile'] = get_profile_by_name(case['profile'])
            ctx.count('histories_with_profile')
        try:
            m = ManifestRecursiveLoader(os.path.join(root, 'Manifest'),
                                        verify_openpgp=False,
                                        hashes=list(case['hashes']), **kw)
        except Exception as exc:
            ctx.discarded('loader construction failed: %s' % type(exc).__name__)
            return
        save_events = []
        for op in case['ops']:
            if op['op'] == 'discard':
                break
            with audit.Recording(root) as rec:
                r = do_op(ctx, m, root, op, case)
            if op['op'].startswith('update'):
                did_update = True
                scopes.append(op['path'])
                if r == 'raised':
                    ctx.count('failing_updates')
                    case['_update_raised'] = True
            if op['op'] == 'save':
                saved = True
                save_events.extend(rec.events)
                ctx.count('saves_audited')
            else:
                ctx.count('presave_phases_audited')
                if rec.events:
                    ctx.violation('write-before-save:' + op['op'],
                                  'write-intent event(s) during %s, before any save: %r'
                                  % (op['op'], rec.events[:3]), case)
                    return
        del m
    ctx.case(sig=('c10', bool(cli), tuple(o['op'] for o in case.get('ops', []))[:6],
                  saved, tuple(sorted(r['class'] for r in case['mutations']))[:3]),
             case=case, nontrivial=did_update or saved, klass='cli' if cli else 'lib')
    # ---- what was written
    mans1 = manifest_state(root)
    mnames |= manifest_file_names(root, mans1)
    for ev in save_events:
        paths = [p for p in (ev[1:2] if ev[0] == 'open-write' else ev[1:3])
                 if isinstance(p, str)]
        for p in paths:
            # (resolve directory symlinks: an alias of a Manifest is that Manifest)
            rp = os.path.join(os.path.realpath(os.path.dirname(p)), os.path.basename(p))
            rel = os.path.relpath(rp, os.path.realpath(root))
            if rel not in mnames and os.path.relpath(p, root) not in mnames:
                ctx.violation('save-touches-non-manifest:' + ev[0],
                              'save performed %s on %r which is not a Manifest file'
                              % (ev[0], rel), case, detail)
                return
    snap1 = gtree.snapshot(root)
    for p in sorted(set(snap0) | set(snap1)):
        if p in mnames:
            continue
        if snap0.get(p) != snap1.get(p):
            if not saved:
                key = 'tree-changed-without-save'
            elif p not in snap0:
                key = 'non-manifest-file-created'
            elif p not in snap1:
                key = 'non-manifest-file-deleted'
            else:
                key = 'non-manifest-file-modified'
            ctx.violation(key, '%r: %r -> %r' % (p, snap0.get(p), snap1.get(p)), case,
                          detail)
            return
    if not saved:
        for p in mnames:
            if snap0.get(p) != snap1.get(p):
                ctx.violation('manifest-written-without-save', 'Manifest %r changed '
                              'although save was never called' % p, case, detail)
                return
        return
    # ---- conservation inside Manifest files
    if case.get('_update_raised'):
        # a save issued after an update that failed part-way: only the ownership
        # rules above apply (the loader's pending state is whatever the failure left)
        ctx.count('conservation_skipped_after_failed_update')
        return
    if c03.crowded_dirs(root) or case.get('_crowded'):
        ctx.count('conservation_skipped_crowded')
        return
    ctx.count('conservation_checked')
    for tag in ('DIST', 'IGNORE'):
        a, b = lines_of(mans0, tag), lines_of(mans1, tag)
        # entries of Manifests that were not reachable before (unregistered ones
        # that got registered) are in both states via manifest_files_on_disk
        if case.get('profile') and tag == 'IGNORE':
            # (new Manifests created by the profile bring their default IGNOREs)
            b = b & a if not (a - b) else b
        if a != b:
            lost = list((a - b).elements())[:3]
            gained = list((b - a).elements())[:3]
            key = '%s-lines-not-preserved' % tag
            hit, losers = overwritten_by_profile_manifest(mans0, mans1, tag)
            if case.get('profile') and hit and hit == losers and not (b - a):
                key += ':data-listed-compressed-manifest-overwritten-by-profile-manifest'
            ctx.violation(key, '%s lines lost %r / gained %r' % (tag, lost, gained), case,
                          detail)
            return
    a, b = lines_of(mans0, 'TIMESTAMP'), lines_of(mans1, 'TIMESTAMP')
    ts_may_change = bool(cli) and cli['scope'] == '' and (cli.get('t') or a)
    if a != b and not ts_may_change:
        ctx.violation('TIMESTAMP-changed', 'TIMESTAMP lines changed %r -> %r although '
                      'no refresh was requested' % (sorted(a), sorted(b)), case, detail)
        return
    if bool(cli) and cli['scope'] == '' and not cli.get('t') and not a and b:
        ctx.violation('TIMESTAMP-added', 'a TIMESTAMP appeared without -t', case,
                      detail)
        return
    # "existing file entries" are those of the Manifests the loader held when it
    # saved; a file that merely has a Manifest name (listed as plain DATA, or not at
    # all) and was never loaded is not part of the Manifest tree, and an entry in it
    # is not an existing entry for the path
    held = tracker.loaded
    if not held:
        ctx.count('type_rule_skipped_nothing_held')
    fe0 = file_entries({mp: e for mp, e in mans0.items() if mp in held})
    fe1 = file_entries({mp: e for mp, e in mans1.items()
                        if mp in held or mp not in mans0})
    for p, after in fe1.items():
        before = fe0.get(p)
        if not before:
            continue
        ctx.count('type_rule_entries_compared')
        tb = {t for t, s, c in before}
        for t, s, c in after:
            if t not in tb:
                ctx.violation('entry-type-changed', 'entry for %r changed type %r -> %r'
                              % (p, sorted(tb), t), case, detail)
                return
    fe0, fe1 = file_entries(mans0), file_entries(mans1)
    # ---- entries outside the updated directories
    for dp, dn, fn in os.walk(root):
        if any(os.path.islink(os.path.join(dp, x)) for x in dn):
            ctx.count('out_of_scope_check_skipped_dir_symlinks')
            return      # aliased paths (U15): 'outside' is not well defined
    on_chain = set()
    for mp in set(mans0) | set(mans1):
        mdir = os.path.dirname(mp)
        if any(mtext.comp_prefix(s, mdir) or mtext.comp_prefix(mdir, s)
               for s in scopes):
            on_chain.add(mp)
            sfx = mtext.suffix_of(mp)
            base = mp[:-len(sfx) - 1] if sfx else mp
            on_chain.add(base)
            on_chain.update(base + '.' + x for x in mtext.SUFFIXES)
    forced = any(o['op'] == 'save' and o.get('force') for o in case.get('ops', []))
    for p in sorted(set(fe0) | set(fe1)):
        if beneath_any(p, scopes) or p in on_chain:
            continue
        a0, a1 = sorted(fe0.get(p, [])), sorted(fe1.get(p, []))
        if forced:
            # a forced save rewrites every Manifest file, hence every MANIFEST entry
            a0 = [x for x in a0 if x[0] != 'MANIFEST']
            a1 = [x for x in a1 if x[0] != 'MANIFEST']
        if a0 != a1:
            ctx.violation('out-of-scope-entry-changed',
                          'entry for %r (outside the updated %r) changed: %r -> %r'
                          % (p, scopes, fe0.get(p), fe1.get(p)), case, detail)
            return


def gen_history(rng, root):
    nmut = rng.choice([0, 1, 2, 3])
    failing = rng.choice([None, None, 'xdev', 'loop', 'fault', 'dir-entry'])
    classes = list(PRIOR)
    case, layout, info = scenario.build(
        rng, root, classes, nmut, {'p_split': 0.1, 'specials': False})
    case['hashes'] = sorted(rng.sample(mtext.supported_hashes(), rng.randint(1, 2)))
    case['watermark'] = rng.choice([None, None, 0, 100, 4096, 10**6])
    case['format'] = rng.choice(['gz', 'bz2', 'lzma', 'xz'])
    dirs = scenario.existing_dirs(root)
    files = sorted(info['listed'])
    extra_ops = []
    if failing == 'loop':
        d = rng.choice(dirs)
        extra_ops.append({'op': 'symlink', 'p': (d + '/' if d else '') + 'loopy',
                          'to': '.'})
    elif failing == 'xdev':
        d = rng.choice(dirs)
        extra_ops.append({'op': 'symlink', 'p': (d + '/' if d else '') + 'xdev-link',
                          'to': '/dev/shm'})
        case['no_xdev'] = True
    for o in extra_ops:
        if not os.path.lexists(os.path.join(root, o['p'])):
            gmutate.apply_op(root, o)
            case['ops'].append(o)
    case['failing'] = failing
    case['tz'] = rng.choice([None, None, 'JST-9', 'XXX8', 'CET-1CEST,M3.5.0,M10.5.0/3'])
    if rng.random() < 0.15 and not any(
            n['t'] == 'l' and n.get('kind') == 'dir' for n in case['skel']['nodes']):
        # (a Manifest the profile creates in a directory that is also visible through
        # a directory symlink would be aliased: U15)
        case['profile'] = rng.choice(['ebuild', 'old-ebuild'])
    if rng.random() < 0.25:
        scope = '' if rng.random() < 0.6 else rng.choice(dirs)
        case['cli'] = {'scope': scope, 't': rng.random() < 0.4 and scope == ''}
        case['history'] = []
        return case
    ops = []
    for _ in range(rng.randint(3, 8)):
        k = rng.choice(OPS)
        op = {'op': k}
        if k in ('verify-dir', 'update-dir'):
            op['path'] = '' if rng.random() < 0.5 else rng.choice(dirs)
            if k == 'update-dir' and failing == 'fault' and rng.random() < 0.7:
                op['fault'] = [rng.choice(['os.open', 'os.stat', 'scandir', 'read',
                                           'open']), rng.randrange(6),
                               rng.choice([5, 13, 12])]
        elif k in ('verify-path', 'find-path', 'update-path'):
            if not files:
                continue
            op['path'] = rng.choice(files)
        elif k == 'find-dist':
            op['path'] = 'dist-%d.tar.gz' % rng.randrange(1000)
            op['rel'] = rng.choice(dirs)
        elif k == 'save':
            op['force'] = rng.random() < 0.2
        ops.append(op)
    same = [r['path'] for r in case['mutations'] if r.get('class') == 'm-dist-same-name']
    if same and rng.random() < 0.8:
        # make sure the file that shares its name with a DIST entry is dealt with
        f = same[0]
        if rng.random() < 0.5 and os.path.isfile(os.path.join(root, f)):
            os.unlink(os.path.join(root, f))
            case['ops'].append({'op': 'unlink', 'p': f})
            ops.append({'op': 'update-dir', 'path': ''})
        else:
            ops.append({'op': 'update-path', 'path': f})
        ops.append({'op': 'save', 'force': False})
    elif rng.random() < 0.3:
        ops.append({'op': 'discard'})
    else:
        ops.append({'op': 'save', 'force': False})
    case['history'] = ops
    return case


def run_multi(ctx, rng, idx):
    """One `gemato update` invocation over several paths: a whole tree first, then
    a sub-directory of ANOTHER tree - the second tree's TIMESTAMP must stay."""
    from gemato import cli as gcli
    with common.Scratch('vf-c10m-') as d:
        a = os.path.join(d, 'A')
        b = os.path.join(d, 'B')
        os.makedirs(os.path.join(a, 'x'))
        os.makedirs(os.path.join(b, 'sub', 'deep'))
        for p, data in ((a + '/f', b'1'), (a + '/x/g', b'22'), (b + '/top', b'3'),
                        (b + '/sub/s', b'44'), (b + '/sub/deep/t', b'5')):
            with open(p, 'wb') as f:
                f.write(data)
        ts = 'TIMESTAMP 2019-03-0%dT10:00:00Z' % rng.randint(1, 9)
        with open(a + '/Manifest', 'w') as f:
            f.write(mtext.render([mtext.file_entry('DATA', 'f', b'1', ['MD5'])]) +
                    (ts + '\n' if rng.random() < 0.5 else ''))
        with open(b + '/Manifest', 'w') as f:
            f.write(mtext.render([mtext.file_entry('DATA', 'top', b'3', ['MD5']),
                                  mtext.file_entry('DATA', 'sub/s', b'stale', ['MD5']),
                                  {'tag': 'DIST', 'path': 'd.tar', 'size': 1,
                                   'sums': {'MD5': 'ab' * 16}}]) + ts + '\n')
        order = rng.choice([[a, b + '/sub'], [a, b + '/sub/deep'], [b + '/sub', a],
                            [a, a + '/x', b + '/sub']])
        case = {'kind': 'multi', 'order': [o.replace(d, '<d>') for o in order],
                'idx': idx, 'gen_seed': ctx.seed}
        ctx.case(sig=('multi', tuple(case['order'])), case=case, klass='cli-multi')
        mans_b0 = manifest_state(b)
        with audit.Recording(d) as rec:
            try:
                rc = gcli.main(['gemato', 'update', '--hashes', 'SHA256'] + order)
            except SystemExit:
                rc = 'exit'
            except Exception as exc:
                rc = exc
        ctx.count('cli_multi_histories')
        mans_b1 = manifest_state(b)
        t0, t1 = lines_of(mans_b0, 'TIMESTAMP'), lines_of(mans_b1, 'TIMESTAMP')
        if t0 != t1:
            ctx.violation('TIMESTAMP-changed:multi-path', 'updating only a sub-directory '
                          'of tree B (after a whole-tree path in the same invocation) '
                          'changed its TIMESTAMP %r -> %r (rc=%r)' % (
                              sorted(t0), sorted(t1), rc), case)
        if lines_of(mans_b0, 'DIST') != lines_of(mans_b1, 'DIST'):
            ctx.violation('DIST-lines-not-preserved', 'multi-path update lost DIST lines',
                          case)


def build_adopt_tree(root, case):
    os.makedirs(os.path.join(root, 'cat', 'pkg', 'tmp'))
    files = {'cat/pkg/p-1.ebuild': b'EAPI=8\n', 'cat/pkg/metadata.xml': b'<x/>\n',
             'cat/pkg/tmp/junk': b'j', 'README': b'r'}
    for pth, data in files.items():
        with open(os.path.join(root, pth), 'wb') as f:
            f.write(data)
    pk = [{'tag': 'DIST', 'path': 'p-1.tar.gz', 'size': 100,
           'sums': {'SHA512': 'ab' * 64}},
          {'tag': 'DIST', 'path': 'p-0.tar.gz', 'size': 99, 'sums': {'MD5': 'cd' * 16}},
          {'tag': 'IGNORE', 'path': 'tmp'},
          mtext.file_entry('EBUILD' if case['stale'] else 'DATA', 'p-1.ebuild',
                           b'old' if case['stale'] else files['cat/pkg/p-1.ebuild'],
                           ['SHA256'])]
    ptext = mtext.render(pk).encode()
    mname = case.get('name', 'Manifest')
    if mname.endswith('.gz'):
        import gzip
        ptext = gzip.compress(ptext, mtime=0)
    elif mname.endswith('.xz'):
        import lzma
        ptext = lzma.compress(ptext)
    elif mname.endswith('.bz2'):
        import bz2
        ptext = bz2.compress(ptext)
    with open(os.path.join(root, 'cat', 'pkg', mname), 'wb') as f:
        f.write(ptext)
    top = [mtext.file_entry('DATA', 'README', files['README'], ['SHA256'])]
    if case['listed'] == 'manifest':
        top.append(mtext.file_entry('MANIFEST', 'cat/pkg/' + mname, ptext, ['SHA256']))
    elif case['listed'] == 'data':
        top.append(mtext.file_entry('DATA', 'cat/pkg/' + mname, ptext, ['SHA256']))
    elif case['listed'] == 'misc':
        top.append(mtext.file_entry('MISC', 'cat/pkg/' + mname, ptext, ['SHA256']))
    elif case['listed'] == 'ignore':
        # the file merely has a Manifest name: an exact IGNORE entry takes it (and
        # nothing else) out of the tree
        top.append({'tag': 'IGNORE', 'path': 'cat/pkg/' + mname})
    with open(os.path.join(root, 'Manifest'), 'w') as f:
        f.write(mtext.render(top))
    return mname


def exec_adopt(ctx, case):
    """A package Manifest carrying DIST and IGNORE lines already exists where an
    ebuild profile wants a Manifest, and the parent knows it in various ways (proper
    MANIFEST entry, plain DATA entry, not at all): whatever the update does with it,
    those lines must survive."""
    from gemato import cli as gcli
    with common.Scratch('vf-c10a-') as d:
        root = os.path.join(d, 't')
        mname = build_adopt_tree(root, case)
        mans0 = manifest_state(root)
        keep0 = lines_of(mans0, 'DIST') + lines_of(mans0, 'IGNORE')
        with open(os.path.join(root, 'cat', 'pkg', mname), 'rb') as f:
            bytes0 = f.read()
        ctx.case(sig=('adopt', case['listed'], case['profile'], case['api'],
                      case['stale'], mname), case=case, klass='adopt')
        argv = ['gemato', 'update', '-p', case['profile'], '--hashes', 'SHA256', root]
        try:
            if case['api'] == 'cli':
                try:
                    rc = gcli.main(argv)
                except SystemExit as exc:
                    rc = 'exit'
            else:
                from gemato.profile import get_profile_by_name
                from gemato.recursiveloader import ManifestRecursiveLoader
                m = ManifestRecursiveLoader(os.path.join(root, 'Manifest'),
                                            verify_openpgp=False, hashes=['SHA256'],
                                            profile=get_profile_by_name(case['profile']))
                m.update_entries_for_directory('')
                m.save_manifests()
                rc = 0
        except Exception as exc:
            ctx.count('adopt_update_raised:' + type(exc).__name__)
            rc = exc
        ctx.count('adopt_cases')
        if case['listed'] == 'ignore':
            ctx.count('adopt_ignored_file_cases')
            try:
                with open(os.path.join(root, 'cat', 'pkg', mname), 'rb') as f:
                    bytes1 = f.read()
            except OSError:
                bytes1 = None
            if bytes1 != bytes0:
                ctx.violation('ignored-file-touched:' + ('deleted' if bytes1 is None
                                                        else 'rewritten'),
                    'update -p %s (rc %r): the file cat/pkg/%s, which an exact IGNORE '
                    'entry excludes from the tree, was %s' % (
                        case['profile'], rc, mname,
                        'deleted' if bytes1 is None else 'rewritten'), case)
                return
        mans1 = manifest_state(root)
        keep1 = lines_of(mans1, 'DIST') + lines_of(mans1, 'IGNORE')
        lost = keep0 - keep1
        if lost:
            tag = 'DIST' if any(ln.startswith('DIST') for ln in lost) else 'IGNORE'
            hit, losers = overwritten_by_profile_manifest(mans0, mans1, tag)
            sfx = ''
            if hit and hit == losers:
                sfx = ':data-listed-compressed-manifest-overwritten-by-profile-manifest'
            ctx.violation(tag + '-lines-not-preserved' + sfx,
                'update -p %s (rc %r) on a tree whose package Manifest (known to the '
                'parent as: %s) carried them lost %r' % (
                    case['profile'], rc, case['listed'], sorted(lost)[:3]), case)


def exec_createfault(ctx, case):
    """`gemato create` (and a loader opened with allow_create) over a tree that already
    has Manifests, with one injected I/O error: either the command fails and nothing
    was written, or the DIST / IGNORE lines are still there."""
    from gemato import cli as gcli
    with common.Scratch('vf-c10f-') as d:
        root = os.path.join(d, 't')
        os.makedirs(os.path.join(root, 'sub'))
        os.makedirs(os.path.join(root, 'local'))
        files = {'a': b'1', 'sub/b': b'22', 'local/secret.txt': b'333'}
        for pth, data in files.items():
            with open(os.path.join(root, pth), 'wb') as f:
                f.write(data)
        sub = [mtext.file_entry('DATA', 'b', b'stale', ['SHA256']),
               {'tag': 'DIST', 'path': 'sub-1.tar', 'size': 7, 'sums': {'MD5': 'ef' * 16}}]
        stext = mtext.render(sub).encode()
        with open(os.path.join(root, 'sub', 'Manifest'), 'wb') as f:
            f.write(stext)
        top = [mtext.file_entry('DATA', 'a', b'1', ['SHA256']),
               mtext.file_entry('MANIFEST', 'sub/Manifest', stext, ['SHA256']),
               {'tag': 'IGNORE', 'path': 'local'},
               {'tag': 'DIST', 'path': 'd.tar', 'size': 1, 'sums': {'MD5': 'ab' * 16}},
               {'tag': 'TIMESTAMP', 'ts': '2019-03-04T10:00:00Z'}]
        with open(os.path.join(root, 'Manifest'), 'w') as f:
            f.write(mtext.render(top))
        snap0 = gtree.snapshot(root)
        mans0 = manifest_state(root)
        keep0 = lines_of(mans0, 'DIST') + lines_of(mans0, 'IGNORE') + \
            lines_of(mans0, 'TIMESTAMP')
        ctx.case(sig=('createfault', case['api'], tuple(case['fault'])), case=case,
                 klass='createfault')
        ctx.count('createfault_cases')
        fp = failpoints.Failpoints(root, tuple(case['fault'][:2]), case['fault'][2])
        rc = None
        from gemato.recursiveloader import ManifestRecursiveLoader as L
        orig_save = L.save_manifests
        entered = []

        def save_manifests(loader, *a, **kw):
            entered.append(1)
            return orig_save(loader, *a, **kw)
        L.save_manifests = save_manifests
        with audit.Recording(root) as rec:
            try:
                with fp:
                    if case['api'] == 'cli':
                        try:
                            rc = gcli.main(['gemato', 'create', '--hashes', 'SHA256',
                                            root])
                        except SystemExit:
                            rc = 'exit'
                    else:
                        from gemato.recursiveloader import ManifestRecursiveLoader
                        m = ManifestRecursiveLoader(os.path.join(root, 'Manifest'),
                                                    verify_openpgp=False,
                                                    hashes=['SHA256'], allow_create=True)
                        m.update_entries_for_directory('')
                        m.save_manifests()
                        rc = 0
            except Exception as exc:
                rc = exc
            finally:
                L.save_manifests = orig_save
        if fp.fired is None:
            ctx.count('createfault_not_reached')
        else:
            ctx.count('createfault_fired')
        if rc != 0:
            snap1 = gtree.snapshot(root)
            if entered:
                # (a fault that hits the save step itself may leave it half done)
                ctx.count('createfault_during_save')
            elif snap1 != snap0 and fp.fired is not None:
                ctx.violation('failed-create-wrote', 'create failed (%r) after the '
                              'injected %s but the tree changed' % (rc, fp.fired), case)
            return
        mans1 = manifest_state(root)
        keep1 = lines_of(mans1, 'DIST') + lines_of(mans1, 'IGNORE') + \
            lines_of(mans1, 'TIMESTAMP')
        lost = keep0 - keep1
        if lost:
            ctx.violation('create-over-existing-lost-lines', 'create returned 0 (injected '
                          'fault: %s) and lost %r' % (fp.fired, sorted(lost)[:3]), case)
        elif any(mtext.comp_prefix(p, 'local') for p in file_entries(mans1)):
            ctx.violation('create-over-existing-lost-lines', 'create returned 0 (injected '
                          'fault: %s) and lists the IGNOREd local/' % (fp.fired,), case)


def run_createfault(u, ctx):
    for api in ('cli', 'lib'):
        for site in ('open', 'os.open', 'read', 'text-read', 'os.stat', 'os.fstat'):
            for idx in range(4):
                for err in (5, 13):
                    exec_createfault(ctx, {'kind': 'createfault', 'api': api,
                                           'fault': [site, idx, err]})


def exec_dangling(ctx, case):
    """A dangling symlink that has a Manifest name sits where recompression would put
    a Manifest: nothing may be written through it."""
    from gemato import cli as gcli
    with common.Scratch('vf-c10d-') as d:
        root = os.path.join(d, 't')
        os.makedirs(os.path.join(root, 'a', 'b'))
        for pth, data in (('a/f', b'1'), ('a/b/g', b'22'), ('top', b'3')):
            with open(os.path.join(root, pth), 'wb') as f:
                f.write(data)
        plain = case['have'] == 'plain'
        atext = mtext.render([mtext.file_entry('DATA', 'f', b'1', ['SHA256']),
                              mtext.file_entry('DATA', 'b/g', b'stale', ['SHA256'])])
        adata = atext.encode() if plain else mtext.compress('gz', atext.encode())
        aname = 'a/Manifest' if plain else 'a/Manifest.gz'
        with open(os.path.join(root, aname), 'wb') as f:
            f.write(adata)
        with open(os.path.join(root, 'Manifest'), 'w') as f:
            f.write(mtext.render([mtext.file_entry('DATA', 'top', b'3', ['SHA256']),
                                  mtext.file_entry('MANIFEST', aname, adata,
                                                   ['SHA256'])]))
        # the name the Manifest would be renamed to is a link to a file that does
        # not exist (inside the tree, or outside it)
        lname = 'a/Manifest.gz' if plain else 'a/Manifest'
        target = {'in': os.path.join(root, 'a', 'notes.txt'),
                  'rel': 'notes.txt',
                  'out': os.path.join(d, 'outside-notes.txt')}[case['target']]
        os.symlink(target, os.path.join(root, lname))
        snap0 = gtree.snapshot(root)
        ctx.case(sig=('dangling', case['have'], case['target'], case['scope']),
                 case=case, klass='dangling')
        ctx.count('dangling_cases')
        wm = '0' if plain else '1000000'
        argv = ['gemato', 'update', '--hashes', 'SHA256', '-c', wm, '-C', 'gz',
                os.path.join(root, case['scope']) if case['scope'] else root]
        try:
            rc = gcli.main(argv)
        except SystemExit:
            rc = 'exit'
        except Exception as exc:
            rc = exc
        made = [p for p in (os.path.join(root, 'a', 'notes.txt'),
                            os.path.join(d, 'outside-notes.txt')) if os.path.lexists(p)]
        if made:
            ctx.violation('non-manifest-file-created:through-dangling-link',
                          '`gemato update -c %s %s` (rc %r) created %r through the '
                          'dangling link %s' % (wm, case['scope'] or '.', rc,
                                                [os.path.basename(p) for p in made],
                                                lname), case)


def run_dangling(u, ctx):
    for have in ('plain', 'gz'):
        for target in ('in', 'rel', 'out'):
            for scope in ('a/b', 'a', ''):
                exec_dangling(ctx, {'kind': 'dangling', 'have': have, 'target': target,
                                    'scope': scope})


def exec_signfail(ctx, case):
    """A signed tree whose update cannot be signed (unknown key id, no secret key):
    the command fails - and the top-level Manifest still carries its DIST / IGNORE /
    TIMESTAMP lines afterwards."""
    from gemato import cli as gcli
    from vf.checks import c19
    from vf.fixtures import keys
    with common.Scratch('vf-c10g-') as d:
        root = os.path.join(d, 't')
        os.makedirs(os.path.join(root, 'sub'))
        os.makedirs(os.path.join(root, 'local'))
        for pth, data in (('a', b'1'), ('sub/b', b'22'), ('local/x', b'333')):
            with open(os.path.join(root, pth), 'wb') as f:
                f.write(data)
        with open(os.path.join(root, 'Manifest'), 'w') as f:
            f.write(mtext.render([
                {'tag': 'IGNORE', 'path': 'local'},
                {'tag': 'DIST', 'path': 'd.tar', 'size': 1, 'sums': {'MD5': 'ab' * 16}},
                {'tag': 'TIMESTAMP', 'ts': '2019-03-04T10:00:00Z'}]))
        old_home = os.environ.get('GNUPGHOME')
        os.environ['GNUPGHOME'] = c19.sign_home().dir
        try:
            rc = gcli.main(['gemato', 'update', '--hashes', 'SHA256', '-s', '-k',
                            keys.KEY_ID, root])
            if rc != 0:
                ctx.count('harness_error')
                return
            mans0 = manifest_state(root)
            keep0 = lines_of(mans0, 'DIST') + lines_of(mans0, 'IGNORE') + \
                lines_of(mans0, 'TIMESTAMP')
            with open(os.path.join(root, 'sub', 'new'), 'w') as f:
                f.write('new file')
            ctx.case(sig=('signfail', case['how'], case['api']), case=case,
                     klass='signfail')
            ctx.count('signfail_cases')
            argv = ['gemato', 'update', '--hashes', 'SHA256']
            if case['how'] == 'wrong-key':
                argv += ['-k', '0xDEADBEEFDEADBEEF']
            else:
                # no secret key at all in this home
                empty = os.path.join(d, 'emptyhome')
                os.makedirs(empty, mode=0o700)
                os.environ['GNUPGHOME'] = empty
                argv += ['-s']
            if case['api'] == 'cli-force':
                argv.append('-f')
            try:
                rc = gcli.main(argv + (['--no-openpgp-verify']
                                       if case['how'] != 'wrong-key' else []) + [root])
            except SystemExit:
                rc = 'exit'
            except Exception as exc:
                rc = exc
        finally:
            if old_home is None:
                os.environ.pop('GNUPGHOME', None)
            else:
                os.environ['GNUPGHOME'] = old_home
        if rc == 0:
            ctx.count('signfail_update_succeeded')
            return
        mans1 = manifest_state(root)
        keep1 = lines_of(mans1, 'DIST') + lines_of(mans1, 'IGNORE') + \
            lines_of(mans1, 'TIMESTAMP')
        lost = keep0 - keep1
        if lost:
            ctx.violation('failed-signing-lost-lines', 'update failed (%r) because the '
                          'top-level Manifest could not be signed, and afterwards it '
                          'lacks %r (file size now %d)' % (
                              rc, sorted(lost)[:3],
                              os.path.getsize(os.path.join(root, 'Manifest'))), case)


def run_signfail(u, ctx):
    for how in ('wrong-key', 'no-secret-key'):
        for api in ('cli', 'cli-force'):
            exec_signfail(ctx, {'kind': 'signfail', 'how': how, 'api': api})


def exec_forcestale(ctx, case):
    """Updating one sub-directory and saving with force (which rewrites every Manifest)
    when ANOTHER sub-Manifest, not on the chain above the updated directory, was edited
    behind the back of its MANIFEST entry: that entry is outside the updated directory
    and must not come out changed."""
    from gemato import cli as gcli
    from gemato.recursiveloader import ManifestRecursiveLoader
    with common.Scratch('vf-c10s-') as d:
        root = os.path.join(d, 't')
        for sub in ('sub', 'other'):
            os.makedirs(os.path.join(root, sub))
            with open(os.path.join(root, sub, 'f'), 'wb') as f:
                f.write(sub.encode())
        texts = {}
        for sub in ('sub', 'other'):
            texts[sub] = mtext.render([mtext.file_entry('DATA', 'f', sub.encode(),
                                                        ['SHA256'])]).encode()
            with open(os.path.join(root, sub, 'Manifest'), 'wb') as f:
                f.write(texts[sub])
        with open(os.path.join(root, 'Manifest'), 'w') as f:
            f.write(mtext.render([mtext.file_entry('MANIFEST', s + '/Manifest', texts[s],
                                                   ['SHA256']) for s in ('sub', 'other')]))
        # the foreign edit: another file, another line
        with open(os.path.join(root, 'other', 'Manifest'), 'ab') as f:
            f.write(b'DIST injected.tar 1 MD5 ' + b'ab' * 16 + b'\n')
        with open(os.path.join(root, 'sub', 'new'), 'w') as f:
            f.write('new')
        before = file_entries(manifest_state(root)).get('other/Manifest')
        ctx.case(sig=('forcestale', case['api']), case=case, klass='forcestale')
        ctx.count('forcestale_cases')
        try:
            if case['api'] == 'cli':
                rc = gcli.main(['gemato', 'update', '-f', '--hashes', 'SHA256',
                                os.path.join(root, 'sub')])
            else:
                m = ManifestRecursiveLoader(os.path.join(root, 'Manifest'),
                                            verify_openpgp=False, hashes=['SHA256'])
                m.update_entries_for_directory('sub')
                m.save_manifests(force=True)
                rc = 0
        except SystemExit:
            rc = 'exit'
        except Exception as exc:
            rc = exc
        after = file_entries(manifest_state(root)).get('other/Manifest')
        if after != before:
            ctx.violation('out-of-scope-entry-changed:forced-save-blessed-stale-manifest',
                          'update of sub/ + forced save (result %r) changed the MANIFEST '
                          'entry of other/Manifest, which had been edited behind its '
                          'back: %r -> %r' % (rc, before, after), case)


def exec_sharedsum(ctx, case):
    """Entries that are equal in size and checksums (files with one content, a distfile
    unpacked next to itself) are still separate entries: updating the directory of one
    of them - which has a twin with another hash set, so the deduplication merges into
    it - leaves the others, outside that directory, and the DIST line as they were."""
    import hashlib
    from gemato import cli as gcli
    from gemato.recursiveloader import ManifestRecursiveLoader
    with common.Scratch('vf-c10q-') as d:
        root = os.path.join(d, 't')
        data = b'one content'
        for sub in ('a', 'b'):
            os.makedirs(os.path.join(root, sub))
        for pth in ('a/foo', 'b/bar'):
            with open(os.path.join(root, pth), 'wb') as f:
                f.write(data)
        sha = hashlib.sha256(data).hexdigest()
        ents = [mtext.file_entry('DATA', 'a/foo', data, ['SHA256']),
                mtext.file_entry('DATA', 'b/bar', data, ['SHA256']),
                {'tag': 'DIST', 'path': 'same.tar', 'size': len(data),
                 'sums': {'SHA256': sha}},
                mtext.file_entry('DATA', 'a/foo', data, [case['other']])]
        if case['order']:
            ents.reverse()
        with open(os.path.join(root, 'Manifest'), 'w') as f:
            f.write(mtext.render(ents))
        mans0 = manifest_state(root)
        keep0 = lines_of(mans0, 'DIST')
        before = file_entries(mans0).get('b/bar')
        ctx.case(sig=('sharedsum', case['api'], case['other'], case['order']), case=case,
                 klass='sharedsum')
        ctx.count('sharedsum_cases')
        hs = ['SHA256', case['other']] if case['union'] else ['SHA256']
        try:
            if case['api'] == 'cli':
                rc = gcli.main(['gemato', 'update', '--hashes', ' '.join(hs),
                                os.path.join(root, 'a')])
            else:
                m = ManifestRecursiveLoader(os.path.join(root, 'Manifest'),
                                            verify_openpgp=False, hashes=hs)
                m.update_entries_for_directory('a')
                m.save_manifests()
                rc = 0
        except SystemExit:
            rc = 'exit'
        except Exception as exc:
            rc = exc
        mans1 = manifest_state(root)
        after = file_entries(mans1).get('b/bar')
        if lines_of(mans1, 'DIST') != keep0:
            ctx.violation('DIST-lines-not-preserved:equal-checksums',
                          'update of a/ (result %r): DIST line changed %r -> %r'
                          % (rc, sorted(keep0), sorted(lines_of(mans1, 'DIST'))), case)
        elif after != before:
            ctx.violation('out-of-scope-entry-changed:equal-checksums',
                          'update of a/ (result %r) changed the entry of b/bar: %r -> %r'
                          % (rc, before, after), case)


def run_sharedsum(u, ctx):
    for api in ('cli', 'lib'):
        for other in ('MD5', 'SHA512'):
            for order in (0, 1):
                for union in (False, True):
                    exec_sharedsum(ctx, {'kind': 'sharedsum', 'api': api, 'other': other,
                                         'order': order, 'union': union})


def exec_locale(ctx, case):
    """Manifest files are UTF-8 whatever the locale of the process: an update run under
    a non-UTF-8 locale keeps the DIST / IGNORE lines with non-ASCII names."""
    import subprocess
    import sys
    with common.Scratch('vf-c10l-') as d:
        root = os.path.join(d, 't')
        os.makedirs(os.path.join(root, 'sub'))
        for pth, data in (('a', b'1'), ('sub/b', b'22')):
            with open(os.path.join(root, pth), 'wb') as f:
                f.write(data)
        with open(os.path.join(root, 'Manifest'), 'w', encoding='utf8') as f:
            f.write(mtext.render([
                mtext.file_entry('DATA', 'a', b'1', ['SHA256']),
                mtext.file_entry('DATA', 'sub/b', b'stale', ['SHA256']),
                {'tag': 'IGNORE', 'path': 'za\u017c\xf3\u0142\u0107'},
                {'tag': 'DIST', 'path': 'g\u0119\u015bl\u0105-1.0.tar.gz', 'size': 1,
                 'sums': {'MD5': 'ab' * 16}},
                {'tag': 'TIMESTAMP', 'ts': '2019-03-04T10:00:00Z'}]))
        mans0 = manifest_state(root)
        keep0 = lines_of(mans0, 'DIST') + lines_of(mans0, 'IGNORE') + \
            lines_of(mans0, 'TIMESTAMP')
        ctx.case(sig=('locale', case['scope'], case['lc']), case=case, klass='locale')
        ctx.count('locale_cases')
        env = dict(os.environ, LC_ALL=case['lc'], LANG=case['lc'], PYTHONCOERCECLOCALE='0',
                   PYTHONUTF8='0')
        code = ('import sys; sys.path.insert(0, %r); from gemato.cli import main; '
                'sys.exit(main(%r))' % (common.REPO, [
                    'gemato', 'update', '--hashes', 'SHA256',
                    os.path.join(root, case['scope']) if case['scope'] else root]))
        try:
            r = subprocess.run([sys.executable, '-c', code], env=env,
                               capture_output=True, timeout=300)
        except subprocess.TimeoutExpired:
            ctx.discarded('update under LC_ALL=%s timed out' % case['lc'])
            return
        try:
            mans1 = manifest_state(root)
            keep1 = lines_of(mans1, 'DIST') + lines_of(mans1, 'IGNORE') + \
                lines_of(mans1, 'TIMESTAMP')
        except Exception as exc:
            keep1 = collections.Counter()
        lost = keep0 - keep1
        if not case['scope']:
            # (a whole-tree update refreshes an existing TIMESTAMP)
            lost = collections.Counter({k: v for k, v in lost.items()
                                        if not k.startswith('TIMESTAMP')})
        if lost:
            ctx.violation('DIST-lines-not-preserved:non-utf8-locale', 'update under '
                          'LC_ALL=%s (exit %r) lost %r: %s' % (
                              case['lc'], r.returncode, sorted(lost)[:3],
                              r.stderr.decode('utf8', 'replace')[-200:]), case)


def run_locale(u, ctx):
    for scope in ('', 'sub'):
        for lc in ('C', 'POSIX'):
            exec_locale(ctx, {'kind': 'locale', 'scope': scope, 'lc': lc})


def run_forcestale(u, ctx):
    for api in ('cli', 'lib'):
        exec_forcestale(ctx, {'kind': 'forcestale', 'api': api})


def run_adopt(u, ctx):
    n = 0
    for listed in ('manifest', 'data', 'misc', 'none', 'ignore'):
        for profile in ('ebuild', 'old-ebuild'):
            for api in ('cli', 'lib'):
                for stale in (False, True):
                    for name in ('Manifest', 'Manifest.gz', 'Manifest.xz',
                                 'Manifest.bz2'):
                        exec_adopt(ctx, {'kind': 'adopt', 'listed': listed,
                                         'profile': profile, 'api': api,
                                         'stale': stale, 'name': name})


def run_unit(u, ctx):
    if u.get('k') == 'adopt':
        return run_adopt(u, ctx)
    if u.get('k') == 'createfault':
        return run_createfault(u, ctx)
    if u.get('k') == 'dangling':
        return run_dangling(u, ctx)
    if u.get('k') == 'signfail':
        return run_signfail(u, ctx)
    if u.get('k') == 'forcestale':
        return run_forcestale(u, ctx)
    if u.get('k') == 'sharedsum':
        return run_sharedsum(u, ctx)
    if u.get('k') == 'locale':
        return run_locale(u, ctx)
    if u.get('k') == 'multi':
        for j in range(u['n']):
            run_multi(ctx, common.rng_for(ctx.seed, ID, 'multi', u['i'], j),
                      u['i'] * 100 + j)
        return
    for j in range(u['n']):
        rng = common.rng_for(ctx.seed, ID, u['i'], j)
        with common.Scratch('vf-c10-') as d:
            root = os.path.join(d, 't')
            try:
                case = gen_history(rng, root)
            except RuntimeError as exc:
                ctx.discarded('generator: %s' % exc)
                continue
            run_case(ctx, root, case)
            if j == 0:
                ctx.sample({'prior': case['mutations'], 'history': case['history'],
                            'cli': case.get('cli'), 'failing': case['failing']}, 'c10')


def run_case(ctx, root, case):
    # judge() expects the operation history under 'ops'
    jcase = dict(case, ops=case['history'])
    # the link into the other file system leads to a directory of this case's own:
    # /dev/shm itself is shared with whatever else runs on the machine (a whole-tree
    # CLI update would walk, and rewrite, the Manifests other processes keep there)
    import shutil
    import tempfile
    private = []
    for o in case.get('ops', []):
        if o.get('op') == 'symlink' and o.get('to') == '/dev/shm':
            link = os.path.join(root, o['p'])
            if os.path.islink(link):
                priv = tempfile.mkdtemp(prefix='vf-c10x-', dir='/dev/shm')
                with open(os.path.join(priv, 'foreign'), 'w') as f:
                    f.write('on the other file system')
                os.unlink(link)
                os.symlink(priv, link)
                private.append(priv)
    try:
        judge_wrapper(ctx, root, jcase, case)
    finally:
        for priv in private:
            shutil.rmtree(priv, ignore_errors=True)


def judge_wrapper(ctx, root, jcase, case):
    import time
    before = len(ctx.violations)
    old_tz = os.environ.get('TZ')
    try:
        if case.get('tz'):
            # what is on disk is UTC whatever the local time zone of the process is
            os.environ['TZ'] = case['tz']
            time.tzset()
            ctx.count('histories_in_other_tz')
        judge(ctx, root, jcase)
    finally:
        if old_tz is None:
            os.environ.pop('TZ', None)
        else:
            os.environ['TZ'] = old_tz
        time.tzset()
    # replay files must carry the materialisable case
    for v in ctx.violations[before:]:
        v['case'] = case


def replay(case, ctx):
    if case.get('kind') == 'adopt':
        return exec_adopt(ctx, case)
    if case.get('kind') == 'createfault':
        return exec_createfault(ctx, case)
    if case.get('kind') == 'dangling':
        return exec_dangling(ctx, case)
    if case.get('kind') == 'signfail':
        return exec_signfail(ctx, case)
    if case.get('kind') == 'sharedsum':
        return exec_sharedsum(ctx, case)
    if case.get('kind') == 'forcestale':
        return exec_forcestale(ctx, case)
    if case.get('kind') == 'locale':
        return exec_locale(ctx, case)
    if case.get('kind') == 'multi':
        ctx.seed = case.get('gen_seed', ctx.seed)
        run_multi(ctx, common.rng_for(ctx.seed, ID, 'multi', case['idx'] // 100,
                                      case['idx'] % 100), case['idx'])
        return
    with common.Scratch('vf-c10-') as d:
        root = os.path.join(d, 't')
        scenario.rebuild(root, case)
        run_case(ctx, root, case)
