"""C19 - profiles place Manifests and type entries as documented; output verifies.

`gemato create -p P` (and create + edits + `update -p P`) on generated
ebuild-repository-shaped trees under permuted directory enumeration, judged by
an independent policy (vf.model.policy), the independent reader and a fresh
default-profile verification.
"""
import logging
import os

from vf import adapt, common
from vf.checks import c03
from vf.gen import repo as grepo
from vf.gen import tree as gtree
from vf.model import match as mmatch
from vf.model import mtext, policy
from vf.model import update_post
from vf.fixtures import keys
from vf.mon import walkperm

ID = 'C19'
LEVEL = 'exploration'
RULE = ('case = generated repository (0..4 categories x 1..4 packages with ebuilds, '
        'metadata.xml, nested files/; eclass, licenses, profiles, metadata with dtd/glsa/'
        'news/xml-schema/md5-cache; ignored distfiles/local/packages) x profile {ebuild, '
        'old-ebuild, default} x overrides {-H, -c, -C} x os.walk permutation x 0..3 '
        'rounds of edits (incl. stray Manifest files inside files/) + update -p P; '
        'driven as separate CLI invocations, as one loader object kept across create/'
        'edit/update, or as one `create` over two sibling repositories. '
        'Non-trivial = at least one package; distinct = hash of the case.')
ANCHORS = ['profile:EbuildRepositoryProfile.want_manifest_in_directory',
           'profile:EbuildRepositoryProfile.get_ignore_paths_for_new_manifest',
           'profile:BackwardsCompatEbuildRepositoryProfile.get_entry_type_for_path',
           'profile:BackwardsCompatEbuildRepositoryProfile.want_compressed_manifest',
           'profile:EbuildRepositoryProfile.set_loader_options',
           'recursiveloader:ManifestRecursiveLoader.create_manifest',
           'cli:CreateCommand.__call__']
REQUIRED = ['profile:EbuildRepositoryProfile.want_manifest_in_directory',
            'creates_checked', 'same_loader_cases', 'twin_checked',
            'signed_creates_checked', 'updates_checked', 'profile:ebuild', 'profile:old-ebuild',
            'fresh_verifications', 'name_taken_cases']
ASSUMPTIONS = ['top-level directories with sub-directories but no package, and '
               'metadata.xml outside category/package directories, are unconstrained '
               '(U12)']

N = {'quick': 300, 'thorough': 10000}
PER_UNIT = 6
PROFILES = ['ebuild', 'old-ebuild', 'ebuild', 'old-ebuild', 'default']


def units(tier, seed):
    return [{'k': 'gen', 'i': i, 'n': PER_UNIT} for i in range(N[tier] // PER_UNIT)] + \
        [{'k': 'taken'}]


def setup_worker(ctx):
    common.use_repo()
    logging.getLogger().setLevel(logging.CRITICAL)


def nosort(case):
    """Every other same-loader case runs with sort=False (derived from the walk seed
    so that the other draws stay what they were)."""
    return bool(case.get('same_loader')) and case['wseed'] % 2 == 0


class OneLoader:
    """The library path: one ManifestRecursiveLoader (and so one profile object) kept
    across create, edits and updates, set up the way the CLI sets it up."""

    def __init__(self, root, case):
        from gemato.profile import get_profile_by_name
        from gemato.recursiveloader import ManifestRecursiveLoader
        kw = {'allow_create': True, 'profile': get_profile_by_name(case['profile'])}
        if case['hashes']:
            kw['hashes'] = list(case['hashes'])
        elif case['profile'] == 'default':
            kw['hashes'] = ['SHA256']
        if case['watermark'] is not None:
            kw['compress_watermark'] = case['watermark']
        if case['format']:
            kw['compress_format'] = case['format']
        if nosort(case):
            # a user option overrides the profile's sorting, nothing else
            kw['sort'] = False
        self.m = ManifestRecursiveLoader(os.path.join(root, 'Manifest'), **kw)

    def run(self, wseed):
        try:
            with walkperm.WalkPermuter(wseed):
                self.m.update_entries_for_directory()
                self.m.save_manifests()
            return 0
        except Exception as exc:
            return exc


def run_cli(cmd, root, case, wseed, extra_first=()):
    from gemato import cli as gcli
    argv = ['gemato', cmd, '-p', case['profile']]
    if case['hashes']:
        argv += ['-H', ' '.join(case['hashes'])]
    elif case['profile'] == 'default':
        argv += ['-H', 'SHA256']
    if case['watermark'] is not None:
        argv += ['-c', str(case['watermark'])]
    if case['format']:
        argv += ['-C', case['format']]
    if case.get('sign'):
        # a signed top-level Manifest (the tree of a real repository is signed)
        argv += ['-s', '-k', keys.KEY_ID]
        os.environ['GNUPGHOME'] = sign_home().dir
    argv.extend(extra_first)
    argv.append(root)
    try:
        with walkperm.WalkPermuter(wseed):
            return gcli.main(argv)
    except SystemExit as exc:
        return 'exit:%r' % (exc.code,)
    except Exception as exc:
        return exc
    finally:
        os.environ.pop('GNUPGHOME', None)


_sign_home = None


def sign_home():
    global _sign_home
    if _sign_home is None:
        import atexit
        from vf.mon import gpgenv
        _sign_home = gpgenv.Home(direct_trust=True)
        _sign_home.import_key(keys.PRIVATE_KEY)
        _sign_home.set_trust(keys.KEY_FINGERPRINT, 6)
        atexit.register(_sign_home.close)
    return _sign_home


def check_tree(ctx, root, case, phase, new_manifest_dirs):
    prof = case['profile']
    hashes = case['hashes'] or (['SHA256'] if prof == 'default'
                                else ['BLAKE2B', 'SHA512'])
    wm = case['watermark'] if case['watermark'] is not None else \
        (128 if prof != 'default' else None)
    fmt = case['format'] or 'gz'
    detail = {'phase': phase}
    mdirs = in_use_dirs(root)
    # ---- placement
    if prof != 'default':
        required, optional = policy.expected_dirs(root)
        have = set(mdirs)
        missing = sorted(required - have)
        # (Manifests that existed before an update are never removed)
        extra = sorted((have if phase == 'create' else set(new_manifest_dirs))
                       - required - optional)
        if missing:
            ctx.violation('manifest-missing-in:' + kind_of_dir(missing[0]),
                          'no Manifest in %r (%s, profile %s)' % (missing[:3], phase,
                                                                  prof), case, detail)
            return False
        if extra:
            ctx.violation('manifest-unexpected-in:' + kind_of_dir(extra[0]),
                          'unexpected Manifest in %r (%s, profile %s)'
                          % (extra[:3], phase, prof), case, detail)
            return False
    for d, names in mdirs.items():
        if len(names) > 1:
            ctx.violation('two-manifests-in-directory', '%r holds %r' % (d, names),
                          case, detail)
            return False
    # ---- contents
    mans, problems = update_post.reachable_manifests(root, 'Manifest')
    if problems:
        ctx.violation('unreadable-manifest', repr(problems[:2]), case, detail)
        return False
    for mp, ents in mans.items():
        mdir = os.path.dirname(mp)
        igs = {e['path'] for e in ents if e['tag'] == 'IGNORE'}
        if prof != 'default' and mdir in new_manifest_dirs:
            want = policy.expected_ignores(mdir)
            if igs != want:
                ctx.violation('default-ignores-wrong:' + (mdir or 'top'),
                              'new Manifest in %r has IGNORE %r, documented %r'
                              % (mdir, sorted(igs), sorted(want)), case, detail)
                return False
        for e in ents:
            if e['tag'] in ('IGNORE', 'DIST', 'TIMESTAMP'):
                continue
            full = mtext.full_path(mdir, e)
            is_man = full in mans
            if mdir in new_manifest_dirs or phase == 'create':
                want = policy.expected_tag(prof, full, is_man)
                if e['tag'] != want and not (
                        e['tag'] in ('DATA',) and is_man and phase != 'create'):
                    ctx.violation('entry-type:%s-instead-of-%s' % (e['tag'], want),
                                  'entry for %r is %s, profile %s prescribes %s'
                                  % (full, e['tag'], prof, want), case, detail)
                    return False
            if sorted(e['sums']) != sorted(hashes):
                ctx.violation('hash-set-wrong', 'entry for %r has %r, expected %r'
                              % (full, sorted(e['sums']), sorted(hashes)), case, detail)
                return False
        if (prof != 'default' or case.get('sort')) and not nosort(case):
            keys = [(e['tag'], e.get('path', e.get('ts', ''))) for e in ents]
            if keys != sorted(keys):
                ctx.violation('not-sorted', 'entries of %r are not sorted' % mp, case,
                              detail)
                return False
        # compression
        if mp != 'Manifest' and wm is not None:
            with open(os.path.join(root, mp), 'rb') as f:
                size = len(mtext.decompress_named(os.path.basename(mp), f.read()))
            compressed = mtext.suffix_of(mp) is not None
            pkg_compat = prof == 'old-ebuild' and any(e['tag'] == 'EBUILD' for e in ents)
            want = (size >= wm) and not pkg_compat
            if compressed != want:
                ctx.violation('compression-wrong:' + ('package' if pkg_compat else
                                                      'watermark'),
                              '%r: uncompressed size %d, watermark %d, %s'
                              % (mp, size, wm, 'compressed' if compressed else 'plain'),
                              case, detail)
                return False
            if compressed and mtext.suffix_of(mp) != fmt and mdir in new_manifest_dirs:
                ctx.violation('compression-format', '%r, requested %s' % (mp, fmt), case,
                              detail)
                return False
    # ---- describes the tree and verifies with a plain loader
    findings = update_post.check(root, 'Manifest', '', hashes)
    if findings:
        ctx.violation('post:' + findings[0][0], 'after %s: %r' % (phase, findings[:3]),
                      case, detail)
        return False
    fk, fv = c03.fresh_verify(root, '')
    ctx.count('fresh_verifications')
    res = mmatch.match(root, 'Manifest', '')
    if fk == 'exc' or fv is not True or not res.must_accept:
        ctx.violation('result-does-not-verify', 'default-profile verification after %s: '
                      '%r; model: %r' % (phase, fv, res.summary()), case, detail)
        return False
    return True


def in_use_dirs(root):
    """{directory: [Manifest file names]} of the Manifests reachable from the top."""
    out = {}
    mans, _ = update_post.reachable_manifests(root, 'Manifest')
    for mp in mans:
        out.setdefault(os.path.dirname(mp), []).append(os.path.basename(mp))
    return out


def kind_of_dir(d):
    parts = d.split('/')
    if d == '':
        return 'top'
    if parts[0] == 'metadata':
        return 'metadata' + ('-sub' if len(parts) > 1 else '')
    if parts[0] in policy.SPECIAL_TOP:
        return parts[0]
    return ['category', 'package', 'deeper'][min(len(parts), 3) - 1]


def apply_edit(rng, root, ed):
    files, pkgdirs, alldirs = [], [], []
    for dp, dn, fn in os.walk(root):
        dn[:] = [x for x in dn if not x.startswith('.') and x not in policy.TOP_IGNORES]
        rel = os.path.relpath(dp, root)
        alldirs.append(rel)
        if any(f.endswith('.ebuild') for f in fn):
            pkgdirs.append(rel)
        for f in fn:
            if f not in policy.MAN_NAMES and not f.startswith('.'):
                files.append(os.path.join(rel, f) if rel != '.' else f)
    files.sort()
    pkgdirs.sort()
    k = ed['kind']
    if k in ('modify', 'delete') and files:
        f = files[ed['pick'] % len(files)]
        if k == 'modify':
            with open(os.path.join(root, f), 'ab') as fh:
                fh.write(b'edited %d' % ed['pick'])
        else:
            os.unlink(os.path.join(root, f))
    elif k == 'add' and files:
        d = os.path.dirname(files[ed['pick'] % len(files)])
        with open(os.path.join(root, d, 'added-%d' % (ed['pick'] % 97)), 'wb') as fh:
            fh.write(b'new file')
    elif k == 'new-ebuild' and pkgdirs:
        d = pkgdirs[ed['pick'] % len(pkgdirs)]
        with open(os.path.join(root, d, 'extra-9.%d.ebuild' % (ed['pick'] % 9)), 'w') as fh:
            fh.write('EAPI=8\n')
    elif k == 'ebuild-into-bare':
        bare = sorted(d for d in alldirs if d.count('/') == 1
                      and d.split('/')[0] not in policy.SPECIAL_TOP
                      and os.path.exists(os.path.join(root, d, 'metadata.xml'))
                      and d not in pkgdirs)
        if bare:
            d = bare[ed['pick'] % len(bare)]
            with open(os.path.join(root, d, 'back-1.%d.ebuild' % (ed['pick'] % 9)),
                      'w') as fh:
                fh.write('EAPI=8\n')
    elif k == 'new-aux' and pkgdirs:
        d = pkgdirs[ed['pick'] % len(pkgdirs)]
        os.makedirs(os.path.join(root, d, 'files'), exist_ok=True)
        with open(os.path.join(root, d, 'files', 'added-%d.patch' % (ed['pick'] % 9)),
                  'w') as fh:
            fh.write('patch')
    elif k == 'manifest-in-files' and pkgdirs:
        # a stray (invalid) Manifest file inside a files/ directory
        d = pkgdirs[ed['pick'] % len(pkgdirs)]
        os.makedirs(os.path.join(root, d, 'files'), exist_ok=True)
        with open(os.path.join(root, d, 'files', 'Manifest'), 'w') as fh:
            fh.write('this is not a Manifest\n')
        with open(os.path.join(root, d, 'files', 'zz-%d.patch' % (ed['pick'] % 9)),
                  'w') as fh:
            fh.write('p')
    elif k == 'new-package':
        cats = [d for d in os.listdir(root) if os.path.isdir(os.path.join(root, d))
                and d in grepo.CATS]
        if cats:
            c = sorted(cats)[ed['pick'] % len(cats)]
            pd = os.path.join(root, c, 'newpkg%d' % (ed['pick'] % 5))
            os.makedirs(os.path.join(pd, 'files'), exist_ok=True)
            with open(os.path.join(pd, 'newpkg-1.ebuild'), 'w') as fh:
                fh.write('EAPI=8\n')
            with open(os.path.join(pd, 'metadata.xml'), 'w') as fh:
                fh.write('<pkgmetadata/>\n')
            with open(os.path.join(pd, 'files', 'n.patch'), 'w') as fh:
                fh.write('n')


EDITS = ['modify', 'delete', 'add', 'new-ebuild', 'new-aux', 'manifest-in-files',
         'new-package', 'modify', 'add', 'ebuild-into-bare']


def judge(ctx, root, case):
    prof = case['profile']
    ctx.count('profile:' + prof)
    npk = sum(1 for n in case['tree']['nodes'] if n['p'].endswith('.ebuild'))
    ctx.case(sig=('c19', prof, bool(case['hashes']), case['watermark'], case['format'],
                  len(case['rounds'])), case=case, nontrivial=npk > 0, klass=prof)
    one = None
    twin = None
    if case.get('bare') is not None:
        # some package directories start out without ebuilds (metadata.xml only)
        brng = common.rng_for('c19bare', case['bare'])
        for dp, dn, fn in sorted(os.walk(root)):
            ebs = [f for f in sorted(fn) if f.endswith('.ebuild')]
            if ebs and 'metadata.xml' in fn and brng.random() < 0.5:
                for f in ebs:
                    os.unlink(os.path.join(dp, f))
    if case.get('same_loader'):
        ctx.count('same_loader_cases')
        if nosort(case):
            ctx.count('unsorted_cases')
        try:
            one = OneLoader(root, case)
        except Exception as exc:
            ctx.count('create_raised:' + type(exc).__name__)
            return
        rc = one.run(case['wseed'])
    elif case.get('twin') is not None:
        # one invocation over two repositories: a sibling of this one in which some
        # packages have lost their ebuilds comes first
        twin = root + '-twin'
        common.copy_tree(root, twin)
        trng = common.rng_for('c19twin', case['twin'])
        for dp, dn, fn in sorted(os.walk(twin)):
            ebs = [f for f in sorted(fn) if f.endswith('.ebuild')]
            if ebs and trng.random() < 0.6:
                for f in ebs:
                    os.unlink(os.path.join(dp, f))
        ctx.count('twin_cases')
        rc = run_cli('create', root, case, case['wseed'], extra_first=(twin,))
    else:
        rc = run_cli('create', root, case, case['wseed'])
    if rc != 0:
        if isinstance(rc, Exception):
            from gemato.exceptions import GematoException
            if isinstance(rc, GematoException):
                ctx.count('create_raised:' + type(rc).__name__)
            else:
                ctx.count('create_internal_error:' + adapt.exc_key(rc))
        else:
            ctx.count('create_rc:%s' % (rc,))
        return
    ctx.count('creates_checked')
    if case.get('sign'):
        with open(os.path.join(root, 'Manifest')) as f:
            if '-----BEGIN PGP SIGNED MESSAGE-----' not in f.read():
                ctx.violation('top-level-not-signed', '`create -s` wrote an unsigned '
                              'top-level Manifest', case)
                return
        ctx.count('signed_creates_checked')
    if not check_tree(ctx, root, case, 'create', set(in_use_dirs(root))):
        return
    if twin is not None:
        hashes = case['hashes'] or (['SHA256'] if prof == 'default'
                                    else ['BLAKE2B', 'SHA512'])
        findings = update_post.check(twin, 'Manifest', '', hashes)
        fk, fv = c03.fresh_verify(twin, '')
        if findings or fk == 'exc' or fv is not True:
            ctx.violation('twin-repository:' + (findings[0][0] if findings
                                                else 'does-not-verify'),
                          'first repository of a two-path create: %r / %r'
                          % (findings[:2], fv), case, {'phase': 'create'})
            return
        ctx.count('twin_checked')
    for rnd, edits in enumerate(case['rounds']):
        before = set(in_use_dirs(root))
        for ed in edits:
            apply_edit(None, root, ed)
        if c03.crowded_dirs(root) and False:
            return
        cur = case
        if one is None and case.get('switch'):
            # the update asks for another hash set than the tree was created with
            cur = dict(case, hashes=list(case['switch']))
            ctx.count('hash_set_switched_updates')
        if one is not None:
            rc = one.run(case['wseed'] + rnd + 1)
        else:
            rc = run_cli('update', root, cur, case['wseed'] + rnd + 1)
        if rc != 0:
            if isinstance(rc, Exception) and not type(rc).__module__.startswith('gemato'):
                ctx.count('update_internal_error:' + adapt.exc_key(rc))
            else:
                ctx.count('update_failed')
            return
        ctx.count('updates_checked')
        new = set(in_use_dirs(root)) - before
        if not check_tree(ctx, root, cur, 'update%d' % rnd, new):
            return


def exec_taken(ctx, case):
    """One directory cannot get its Manifest (a listed regular file occupies the
    name): every *other* directory the profile names still gets one."""
    from gemato import cli as gcli
    from vf.checks import c10
    with common.Scratch('vf-c19t-') as d:
        root = os.path.join(d, 'repo')
        c10.build_adopt_tree(root, {'listed': case['listed'], 'name': 'Manifest',
                                    'stale': False})
        extra = {'cat/pkg/sub-a/x': b'x', 'cat/zpkg/z-1.ebuild': b'EAPI=8\n',
                 'cat/zpkg/metadata.xml': b'<z/>\n', 'zcat/qpkg/q-2.ebuild': b'EAPI=8\n',
                 'aaa/first/f-1.ebuild': b'EAPI=8\n', 'profiles/repo_name': b'r\n'}
        for pth, data in extra.items():
            os.makedirs(os.path.dirname(os.path.join(root, pth)), exist_ok=True)
            with open(os.path.join(root, pth), 'wb') as f:
                f.write(data)
        ctx.case(sig=('taken', case['listed'], case['profile'], case['wseed'] % 4),
                 case=case, klass='taken')
        ctx.count('name_taken_cases')
        try:
            with walkperm.WalkPermuter(case['wseed']):
                rc = gcli.main(['gemato', 'update', '-p', case['profile'], '--hashes',
                                'SHA256', root])
        except SystemExit:
            rc = 'exit'
        except Exception as exc:
            rc = exc
        if rc != 0:
            ctx.count('update_failed:taken')
            return
        have = set(in_use_dirs(root))
        want = {'cat', 'cat/zpkg', 'zcat', 'zcat/qpkg', 'aaa', 'aaa/first', 'profiles'}
        missing = sorted(want - have)
        if missing:
            ctx.violation('manifest-missing-in:' + kind_of_dir(missing[0]),
                          'after update -p %s no Manifest in %r (a regular file listed '
                          'as %s occupies the name in cat/pkg only)' % (
                              case['profile'], missing, case['listed']), case)


def exec_strayname(ctx, case):
    """A package directory holds a file that merely has a compressed Manifest name
    (text, not a compressed stream, listed nowhere): the profile still puts a
    Manifest into that directory (and every other one it names), and the result
    verifies."""
    from gemato import cli as gcli
    with common.Scratch('vf-c19n-') as d:
        root = os.path.join(d, 'repo')
        files = {'cat/pkg/p-1.ebuild': b'EAPI=8\n', 'cat/pkg/metadata.xml': b'<x/>\n',
                 'cat/pkg/' + case['name']: b'this is not a compressed Manifest\n',
                 'cat/zpkg/z-1.ebuild': b'EAPI=8\n', 'profiles/repo_name': b'r\n'}
        for pth, data in files.items():
            os.makedirs(os.path.dirname(os.path.join(root, pth)), exist_ok=True)
            with open(os.path.join(root, pth), 'wb') as f:
                f.write(data)
        ctx.case(sig=('strayname', case['name'], case['profile'], case['cmd']),
                 case=case, klass='strayname')
        ctx.count('stray_manifest_name_cases')
        try:
            with walkperm.WalkPermuter(case['wseed']):
                rc = gcli.main(['gemato', 'create', '-p', case['profile'], '--hashes',
                                'SHA256', root])
                if rc == 0 and case['cmd'] == 'update':
                    with open(os.path.join(root, 'cat/pkg/p-1.ebuild'), 'ab') as f:
                        f.write(b'# edited\n')
                    rc = gcli.main(['gemato', 'update', '-p', case['profile'],
                                    '--hashes', 'SHA256', root])
        except SystemExit:
            rc = 'exit'
        except Exception as exc:
            rc = exc
        if rc != 0:
            ctx.count('create_failed:strayname')
            return
        have = set(in_use_dirs(root))
        want = {'cat', 'cat/pkg', 'cat/zpkg', 'profiles'}
        missing = sorted(want - have)
        if missing:
            ctx.violation('manifest-missing-in:' + kind_of_dir(missing[0]),
                          'after %s -p %s no Manifest in %r (cat/pkg holds a text file '
                          'called %s)' % (case['cmd'], case['profile'], missing,
                                          case['name']), case)
            return
        fk, fv = c03.fresh_verify(root, '')
        if fk == 'exc' or fv is not True:
            ctx.violation('does-not-verify:stray-manifest-name', 'the tree written by '
                          '%s -p %s does not verify: %r' % (case['cmd'], case['profile'],
                                                            fv), case)


def run_taken(u, ctx):
    for name in ('Manifest.gz', 'Manifest.xz', 'Manifest.bz2'):
        for profile in ('ebuild', 'old-ebuild'):
            for cmd in ('create', 'update'):
                exec_strayname(ctx, {'kind': 'strayname', 'name': name,
                                     'profile': profile, 'cmd': cmd,
                                     'wseed': len(name) + len(profile)})
    for listed in ('data', 'misc'):
        for profile in ('ebuild', 'old-ebuild'):
            for wseed in range(6):
                exec_taken(ctx, {'kind': 'taken', 'listed': listed, 'profile': profile,
                                 'wseed': wseed})


def run_unit(u, ctx):
    if u.get('k') == 'taken':
        return run_taken(u, ctx)
    for j in range(u['n']):
        rng = common.rng_for(ctx.seed, ID, u['i'], j)
        tree, cats = grepo.gen_repo(rng, portable=rng.random() < 0.5,
                                    odd=rng.random() < 0.15)
        case = {'kind': 'c19', 'tree': tree,
                'profile': PROFILES[(u['i'] * PER_UNIT + j) % len(PROFILES)],
                'hashes': rng.choice([None, None, ['SHA256'], ['MD5', 'SHA1']]),
                'switch': rng.choice([None, None, ['SHA512'], ['MD5', 'SHA256']]),
                'watermark': rng.choice([None, None, None, 0, 64, 4096]),
                'format': rng.choice([None, None, 'bz2', 'xz']),
                'wseed': rng.randrange(1 << 30),
                'same_loader': False, 'twin': None,
                'bare': rng.randrange(1 << 30) if rng.random() < 0.3 else None,
                'rounds': [[{'kind': rng.choice(EDITS), 'pick': rng.randrange(1 << 20)}
                            for _ in range(rng.randint(1, 3))]
                           for _ in range(rng.choice([0, 1, 1, 2, 3]))]}
        if case['profile'] != 'default' and rng.random() < 0.15:
            case['sign'] = True
        r = rng.random()
        if case.get('sign'):
            pass
        elif r < 0.2:
            case['same_loader'] = True
        elif r < 0.4:
            case['twin'] = rng.randrange(1 << 30)
        with common.Scratch('vf-c19-') as d:
            root = os.path.join(d, 'repo')
            gtree.materialize(tree, root)
            judge(ctx, root, case)
        if j == 0:
            ctx.sample({k: case[k] for k in ('profile', 'hashes', 'watermark', 'format',
                                             'rounds')}, 'c19')


def replay(case, ctx):
    if case.get('kind') == 'strayname':
        return exec_strayname(ctx, case)
    if case.get('kind') == 'taken':
        return exec_taken(ctx, case)
    with common.Scratch('vf-c19-') as d:
        root = os.path.join(d, 'repo')
        gtree.materialize(case['tree'], root)
        judge(ctx, root, case)
