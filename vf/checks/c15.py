"""C15 - top-level Manifest discovery returns the outermost covering Manifest.

Directory chains are materialised on disk and the real find_top_level_manifest
is called from every start depth (absolute and relative start, both flags); a
contract compares each call with an independent upward walk
(vf.model.findtop).  Device boundaries: a tmpfs mounted at some level of the
chain inside a private mount namespace (`unshare -m`), else /dev/shm fallback.
"""
import itertools
import json
import os
import subprocess
import sys

from vf import common
from vf.model import findtop, mtext
from vf.mon import contracts

ID = 'C15'
LEVEL = 'exploration'
RULE = ('chain = per level one of {no Manifest, plain, compressed(gz/bz2/lzma/xz), '
        'both} x IGNORE entry kind in that Manifest {none, the start path, an ancestor '
        'of it, a sibling, a string-prefix look-alike}; depth <= 3 enumerated '
        'completely, depth 4..6 seeded; every start depth, absolute and relative '
        'start, allow_compressed on/off, allow_xdev on/off; xdev units mount a tmpfs '
        'at one level. Non-trivial = at least one Manifest on the chain; distinct = '
        'distinct (chain, start, flags).')
ANCHORS = ['find_top_level:find_top_level_manifest']
REQUIRED = ['find_top_level:find_top_level_manifest', 'contract:find_top',
            'xdev:cases', 'cli_multi_runs', 'symlinked_starts']
ASSUMPTIONS = ['no Manifest file exists in the ancestors of the scratch directory '
               '(checked at run time: the model walks up to / as well)',
               'start directories reached through a symlink are not generated']

LEVEL_KINDS = ['none', 'plain', 'gz', 'bz2', 'lzma', 'xz', 'both']
IGN_KINDS = ['none', 'self', 'ancestor', 'sibling', 'lookalike']
NAMES = ['foo', '.cache', 'local', '.local', 'foo.bar', 'a b']


def EXHAUSTIVE(tier):
    return ('all chains of depth <= %d over per-level (Manifest kind x IGNORE kind), '
            'every start depth and flag combination' % (2 if tier == 'quick' else 3))


def per_level(tier):
    kinds = LEVEL_KINDS if tier == 'thorough' else ['none', 'plain', 'gz', 'xz', 'both']
    return [(k, i) for k in kinds for i in IGN_KINDS
            if not (k == 'none' and i != 'none')]


def units(tier, seed):
    u = []
    maxd = 2 if tier == 'quick' else 3
    per = per_level(tier)
    # level 0 is the scratch root (top), levels below are sub-directories
    for d in range(1, maxd + 1):
        combos = list(itertools.product(range(len(per)), repeat=d + 1))
        # chunk
        size = 400
        for off in range(0, len(combos), size):
            u.append({'k': 'enum', 'd': d, 'off': off, 'n': size, 'tier': tier})
    # zero-byte Manifests and IGNOREs that only match when read from the level above
    u.append({'k': 'enum2', 'd': 2})
    if tier == 'thorough':
        u.append({'k': 'enum2', 'd': 3})
    nrand = 40 if tier == 'quick' else 1500
    for i in range(nrand):
        u.append({'k': 'rand', 'i': i, 'n': 25})
    for i in range(12 if tier == 'quick' else 120):
        u.append({'k': 'xdev', 'i': i})
    u.append({'k': 'cli-multi'})
    u.append({'k': 'rootdir'})
    return u


def setup_worker(ctx):
    common.use_repo()
    contracts.install_find_top(ctx)


def ignore_path(kind, names_below, parent_name=None):
    """IGNORE entry (relative to this level) for a start path names_below."""
    if kind == 'outer-self':
        # the start path as seen from the level ABOVE (does not match from here)
        if parent_name is None or not names_below:
            return None
        return '/'.join([parent_name] + list(names_below))
    if kind == 'none' or not names_below:
        return None
    full = '/'.join(names_below)
    if kind == 'self':
        return full
    if kind == 'ancestor':
        return names_below[0] if len(names_below) > 1 else full
    if kind == 'sibling':
        return '/'.join(names_below[:-1] + ['zz-sibling'])
    if kind == 'lookalike':
        # string prefix but not component prefix
        return full[:-1] if len(full) > 1 else full + 'x'
    raise ValueError(kind)


def build_chain(root, spec):
    """spec: list of [kind, ign] per level, level 0 = root.  Directory names from
    spec['names'].  IGNORE entries are made relative to the *deepest* start."""
    levels = spec['levels']
    names = spec['names']
    path = root
    dirs = [root]
    for nm in names:
        path = os.path.join(path, nm)
        os.makedirs(path, exist_ok=True)
        dirs.append(path)
    # things a "clever" discovery might take for the end of the tree: version-control
    # markers and repository metadata mean nothing to the upward walk
    for li, dp in enumerate(dirs):
        m = (li + len(names)) % 4
        if m == 1:
            os.makedirs(os.path.join(dp, '.git'), exist_ok=True)
        elif m == 2 and not os.path.lexists(os.path.join(dp, '.git')):
            with open(os.path.join(dp, '.git'), 'w') as f:
                f.write('gitdir: elsewhere\n')
        elif m == 3:
            os.makedirs(os.path.join(dp, 'profiles'), exist_ok=True)
            with open(os.path.join(dp, 'profiles', 'repo_name'), 'w') as f:
                f.write('x\n')
            os.makedirs(os.path.join(dp, '.svn'), exist_ok=True)
    for li, (kind, ign) in enumerate(levels):
        if kind == 'none':
            continue
        below = names[li:spec.get('ign_depth', len(names))]
        ents = [{'tag': 'DATA', 'path': 'x', 'size': 0, 'sums': {}}]
        if (li + len(names)) % 2:
            # other entry kinds must not matter to discovery: every other level
            # carries a TIMESTAMP and a DIST entry (a tree nested in another one)
            ents.insert(0, {'tag': 'TIMESTAMP', 'ts': '2020-01-0%dT00:00:00Z' % (li + 1)})
            ents.append({'tag': 'DIST', 'path': 'd.tar', 'size': 1, 'sums': {}})
        ip = ignore_path(ign, below, names[li - 1] if li >= 1 else None)
        if ip:
            ents.append({'tag': 'IGNORE', 'path': ip})
        data = mtext.render(ents).encode('utf8')
        if kind == 'empty':
            data = b''
            kind = 'plain'
        kinds = ['plain', 'gz'] if kind == 'both' else [kind]
        for k in kinds:
            fn = 'Manifest' + ('' if k == 'plain' else '.' + k)
            with open(os.path.join(dirs[li], fn), 'wb') as f:
                f.write(mtext.compress(k, data))
    return dirs


def exercise(ctx, spec, dirs, klass):
    import gemato.find_top_level as ft
    nontrivial = any(k != 'none' for k, _ in spec['levels'])
    for depth in range(len(dirs)):
        for ac in (False, True):
            for ax in (True, False):
                for mode in ('abs', 'rel'):
                    case = {'kind': 'chain', 'spec': spec, 'start': depth,
                            'allow_compressed': ac, 'allow_xdev': ax, 'mode': mode}
                    ctx.case(sig=('chain', tuple(k for k, _ in spec['levels']),
                                  tuple(i for _, i in spec['levels']), depth, ac, ax),
                             case=case, nontrivial=nontrivial, klass=klass)
                    call(ctx, ft, dirs, depth, ac, ax, mode, case)
        if all(i == 'none' for _, i in spec['levels']) and klass != 'xdev':
            # the start directory reached through a symlink that lives elsewhere
            # (no IGNORE entries here, so link name vs real name cannot matter); and
            # relative starts from inside the chain
            base = os.path.join(os.path.dirname(dirs[0]), 'elsewhere', 'x')
            os.makedirs(base, exist_ok=True)
            link = os.path.join(base, 'link%d' % depth)
            if not os.path.lexists(link):
                os.symlink(dirs[depth], link)
            case = {'kind': 'chain', 'spec': spec, 'start': depth,
                    'allow_compressed': True, 'allow_xdev': True, 'mode': 'symlink'}
            ctx.case(sig=('chain-symlink', depth), case=case, nontrivial=nontrivial,
                     klass=klass)
            ctx.count('symlinked_starts')
            call(ctx, ft, dirs, depth, True, True, 'symlink', case)
        for mode in ('dot', 'mid'):
            case = {'kind': 'chain', 'spec': spec, 'start': depth,
                    'allow_compressed': True, 'allow_xdev': True, 'mode': mode}
            ctx.case(sig=('chain-' + mode, tuple(i for _, i in spec['levels']), depth),
                     case=case, nontrivial=nontrivial, klass=klass)
            call(ctx, ft, dirs, depth, True, True, mode, case)
        if klass == 'xdev':
            # ... and with every option left to its default (what the CLI does)
            case = {'kind': 'chain', 'spec': spec, 'start': depth,
                    'allow_compressed': False, 'allow_xdev': 'default', 'mode': 'abs'}
            ctx.case(sig=('chain-default', depth), case=case, nontrivial=nontrivial,
                     klass=klass)
            call(ctx, ft, dirs, depth, False, 'default', 'abs', case)


def call(ctx, ft, dirs, depth, ac, ax, mode, case):
    before = ctx.counters['violations']
    old = os.getcwd()
    try:
        if mode == 'abs':
            start = dirs[depth]
        elif mode == 'symlink':
            start = os.path.join(os.path.dirname(dirs[0]), 'elsewhere', 'x',
                                 'link%d' % depth)
        elif mode == 'dot':
            # the current directory is the start directory itself
            os.chdir(dirs[depth])
            start = '.'
        elif mode == 'mid':
            # ... or some directory half-way down the chain
            os.chdir(dirs[depth // 2])
            start = os.path.relpath(dirs[depth], os.getcwd())
        else:
            # relative start: from the root of the chain (or '.' when equal)
            os.chdir(dirs[0] if depth else dirs[depth])
            start = os.path.relpath(dirs[depth], os.getcwd())
        try:
            if ax == 'default':
                ft.find_top_level_manifest(start)
            else:
                ft.find_top_level_manifest(start, allow_xdev=ax, allow_compressed=ac)
        except Exception as exc:
            from vf import adapt
            ctx.violation('find-top-raises:' + adapt.exc_key(exc),
                          'find_top_level_manifest raised %r on a readable chain'
                          % (exc,), case)
    finally:
        os.chdir(old)
    # attach the full case to contract violations raised during this call
    if ctx.counters['violations'] > before:
        for v in ctx.violations:
            if v['case'].get('kind') == 'contract':
                v['detail'] = dict(v['detail'] or {}, contract_args=v['case'])
                v['case'] = case


def run_case(ctx, spec, klass):
    with common.Scratch('vf-c15-') as d:
        root = os.path.join(d, 'top')
        os.makedirs(root)
        dirs = build_chain(root, spec)
        exercise(ctx, spec, dirs, klass)


def run_enum(u, ctx):
    per = per_level(u.get('tier', 'thorough'))
    d = u['d']
    combos = itertools.islice(itertools.product(range(len(per)), repeat=d + 1),
                              u['off'], u['off'] + u['n'])
    for n, combo in enumerate(combos):
        spec = {'levels': [list(per[c]) for c in combo], 'names': NAMES[:d]}
        run_case(ctx, spec, 'enum')
        if n % 97 == 0:
            ctx.sample(spec, 'enum')


def run_enum2(u, ctx):
    per = [(k, i) for k in ('empty', 'plain', 'none')
           for i in ('none', 'self', 'outer-self') if not (k != 'plain' and i != 'none')]
    d = u['d']
    for n, combo in enumerate(itertools.product(range(len(per)), repeat=d + 1)):
        spec = {'levels': [list(per[c]) for c in combo], 'names': ['a', 'b', 'c'][:d]}
        run_case(ctx, spec, 'enum2')
        if n % 29 == 0:
            ctx.sample(spec, 'enum2')


def run_rand(u, ctx):
    for j in range(u['n']):
        rng = common.rng_for(ctx.seed, ID, 'rand', u['i'], j)
        d = rng.randint(3, 6)
        names = [rng.choice(NAMES + ['bar', '.x', 'x']) + str(k) for k in range(d)]
        levels = []
        for _ in range(d + 1):
            k = rng.choice(LEVEL_KINDS + ['none', 'plain', 'empty'])
            i = 'none' if k in ('none', 'empty') else rng.choice(
                IGN_KINDS + ['none', 'outer-self'])
            levels.append([k, i])
        spec = {'levels': levels, 'names': names,
                'ign_depth': rng.randint(1, d)}
        run_case(ctx, spec, 'rand')
        ctx.sample(spec, 'rand')


def run_xdev(u, ctx):
    """Child process in a private mount namespace with a tmpfs on one level."""
    rng = common.rng_for(ctx.seed, ID, 'xdev', u['i'])
    d = rng.randint(2, 5)
    names = ['l%d' % k for k in range(d)]
    levels = []
    for _ in range(d + 1):
        k = rng.choice(['none', 'plain', 'plain', 'gz', 'both'])
        i = 'none' if k == 'none' else rng.choice(['none', 'none', 'self', 'lookalike'])
        levels.append([k, i])
    spec = {'levels': levels, 'names': names, 'mount_at': rng.randint(1, d),
            'manifest_link': rng.random() < 0.3}
    env = dict(os.environ)
    with common.Scratch('vf-c15x-') as scratch:
        out = os.path.join(scratch, 'out.json')
        cmd = ['unshare', '-m', common.PY, '-m', 'vf.checks.c15', '--xdev-child',
               json.dumps(spec), scratch, out, str(ctx.seed)]
        r = subprocess.run(cmd, env=env, capture_output=True, timeout=300,
                           cwd=common.VERIF_DIR)
        if r.returncode != 0 or not os.path.exists(out):
            # mounting refused: fall back to a /dev/shm-rooted chain
            ctx.notes['xdev_mount_unavailable'] += 1
            with common.Scratch('vf-c15s-', base='/dev/shm') as sd:
                root = os.path.join(sd, 'top')
                os.makedirs(root)
                dirs = build_chain(root, spec)
                exercise(ctx, spec, dirs, 'xdev-shm')
                ctx.count('xdev:cases')
            return
        with open(out) as f:
            res = json.load(f)
    ctx.counters.update(res['counters'])
    ctx.case_hashes.update(res['case_hashes'])
    ctx.signatures.update(res['signatures'])
    ctx.violations.extend(res['violations'])
    ctx.count('xdev:cases', res['counters'].get('evaluations', 0))
    ctx.count('xdev:mounted')
    ctx.sample(spec, 'xdev')


def xdev_child(argv):
    from vf import harness
    spec = json.loads(argv[0])
    scratch, out, seed = argv[1], argv[2], int(argv[3])
    ctx = harness.Ctx(ID, 'quick', seed)
    setup_worker(ctx)
    # make the mount private to this namespace
    subprocess.run(['mount', '--make-rprivate', '/'], check=False)
    root = os.path.join(scratch, 'top')
    os.makedirs(root)
    path = root
    names = spec['names']
    mounted = None
    for li, nm in enumerate(names):
        path = os.path.join(path, nm)
        os.makedirs(path, exist_ok=True)
        if li + 1 == spec['mount_at']:
            r = subprocess.run(['mount', '-t', 'tmpfs', 'none', path],
                               capture_output=True)
            if r.returncode != 0:
                sys.exit(7)
            mounted = path
    try:
        dirs = build_chain(root, spec)
        if spec.get('manifest_link'):
            # a Manifest that is a symlink to a file on the other device
            tgt = os.path.join(mounted, 'foreign-Manifest')
            with open(tgt, 'w') as f:
                f.write('DATA y 0\n')
            lvl = max(0, spec['mount_at'] - 1)
            mp = os.path.join(dirs[lvl], 'Manifest')
            if os.path.lexists(mp):
                os.unlink(mp)
            os.symlink(tgt, mp)
        exercise(ctx, spec, dirs, 'xdev')
    finally:
        os.chdir('/')
        subprocess.run(['umount', '-l', mounted], capture_output=True)
    with open(out, 'w') as f:
        json.dump(ctx.dump(), f, default=repr)
    sys.exit(0)


def run_cli_multi(u, ctx):
    """`gemato verify P1 P2 ...`: discovery happens for every path on its own.  A
    nested tree that the outer Manifest IGNOREs (and that has its own Manifest) is a
    different tree, whatever was verified before it on the same command line."""
    import logging
    from gemato import cli as gcli
    logging.getLogger().setLevel(logging.CRITICAL)
    orders = [['repo', 'repo/local'], ['repo/local', 'repo'],
              ['repo/other', 'repo/local'], ['repo', 'repo/local/deep', 'repo/other'],
              ['repo/local', 'repo/local/deep']]
    with common.Scratch('vf-c15c-') as d:
        repo = os.path.join(d, 'repo')
        for sub in ('other', 'local/deep'):
            os.makedirs(os.path.join(repo, sub))
        files = {'a': b'a', 'other/b': b'bb', 'local/c': b'ccc', 'local/deep/e': b'e'}
        for rel, data in files.items():
            with open(os.path.join(repo, rel), 'wb') as f:
                f.write(data)
        with open(os.path.join(repo, 'Manifest'), 'w') as f:
            f.write(mtext.render([mtext.file_entry('DATA', 'a', b'a', ['SHA256']),
                                  mtext.file_entry('DATA', 'other/b', b'bb', ['SHA256']),
                                  {'tag': 'IGNORE', 'path': 'local'}]))
        with open(os.path.join(repo, 'local', 'Manifest'), 'w') as f:
            f.write(mtext.render([mtext.file_entry('DATA', 'c', b'ccc', ['SHA256']),
                                  mtext.file_entry('DATA', 'deep/e', b'e', ['SHA256'])]))
        for order in orders:
            case = {'kind': 'cli-multi', 'order': order}
            ctx.case(sig=('cli-multi', tuple(order)), case=case, klass='cli-multi')
            ctx.count('cli_multi_runs')
            try:
                rc = gcli.main(['gemato', 'verify', '-P'] +
                               [os.path.join(d, p) for p in order])
            except SystemExit as exc:
                rc = exc.code
            except Exception as exc:
                rc = exc
            if rc != 0:
                ctx.violation('cli-multi-path-discovery', '`gemato verify %s` -> %r on '
                              'two valid trees (repo IGNOREs local, local has its own '
                              'Manifest)' % (' '.join(order), rc), case)
        # ... and a mismatch in the nested tree is found whatever comes first
        with open(os.path.join(repo, 'local', 'c'), 'wb') as f:
            f.write(b'CHANGED')
        for order in orders[:3]:
            case = {'kind': 'cli-multi', 'order': order, 'broken': True}
            ctx.count('cli_multi_runs')
            try:
                rc = gcli.main(['gemato', 'verify', '-P'] +
                               [os.path.join(d, p) for p in order])
            except SystemExit as exc:
                rc = exc.code
            except Exception as exc:
                rc = exc
            if rc == 0:
                ctx.violation('cli-multi-path-discovery', '`gemato verify %s` exits 0 '
                              'although local/c was changed' % ' '.join(order), case)


def run_rootdir(u, ctx):
    """The outermost ancestor is the root directory itself (a repository unpacked at
    the top of a container image): discovery inside a chroot of a scratch tree."""
    import json
    layouts = [
        {'mans': {'': 'DATA x 0\n'}, 'start': 'a/b', 'want': '/Manifest'},
        {'mans': {'': 'DATA x 0\n', 'a': 'DATA y 0\n'}, 'start': 'a/b', 'want': '/Manifest'},
        {'mans': {'': 'IGNORE a\n', 'a': 'DATA y 0\n'}, 'start': 'a/b',
         'want': '/a/Manifest'},
        {'mans': {'': 'IGNORE a/b\n'}, 'start': 'a/b', 'want': None},
        {'mans': {'': 'DATA x 0\n'}, 'start': '', 'want': '/Manifest'},
        {'mans': {'a/b': 'DATA z 0\n'}, 'start': 'a/b', 'want': '/a/b/Manifest'},
    ]
    for li, lay in enumerate(layouts):
        with common.Scratch('vf-c15r-') as d:
            for rel in ('a/b', 'tmp'):
                os.makedirs(os.path.join(d, rel), exist_ok=True)
            for rel, text in lay['mans'].items():
                with open(os.path.join(d, rel, 'Manifest'), 'w') as f:
                    f.write(text)
            r, w = os.pipe()
            pid = os.fork()
            if pid == 0:
                try:
                    os.close(r)
                    import gemato.find_top_level as ft
                    fn = getattr(ft.find_top_level_manifest, '__wrapped__',
                                 ft.find_top_level_manifest)
                    os.chroot(d)
                    os.chdir('/')
                    try:
                        got = fn('/' + lay['start'])
                        out = {'got': None if got is None else os.path.normpath(got)}
                    except Exception as exc:
                        out = {'exc': repr(exc)}
                    os.write(w, json.dumps(out).encode())
                finally:
                    os._exit(0)
            os.close(w)
            data = b''
            while True:
                chunk = os.read(r, 65536)
                if not chunk:
                    break
                data += chunk
            os.close(r)
            os.waitpid(pid, 0)
            case = {'kind': 'rootdir', 'layout': li}
            ctx.case(sig=('rootdir', li), case=case, klass='rootdir')
            try:
                out = json.loads(data.decode())
            except ValueError:
                ctx.discarded('chroot child gave no answer')
                continue
            ctx.count('rootdir_cases')
            if 'exc' in out:
                if 'Permission' in out['exc'] or 'Operation not permitted' in out['exc']:
                    ctx.discarded('chroot not permitted')
                    continue
                ctx.violation('rootdir-raises', 'discovery below / raised %s'
                              % out['exc'], case)
            elif out['got'] != lay['want']:
                ctx.violation('contract-find-top:root-directory',
                              'in a tree whose top is the root directory, start /%s: '
                              'got %r, expected %r (Manifests in %r)' % (
                                  lay['start'], out['got'], lay['want'],
                                  sorted(lay['mans'])), case)


def run_unit(u, ctx):
    {'enum': run_enum, 'rand': run_rand, 'xdev': run_xdev,
     'enum2': run_enum2, 'cli-multi': run_cli_multi,
     'rootdir': run_rootdir}[u['k']](u, ctx)


def replay(case, ctx):
    if case.get('kind') == 'cli-multi':
        return run_cli_multi({}, ctx)
    if case.get('kind') == 'rootdir':
        return run_rootdir({}, ctx)
    spec = case['spec']
    if 'mount_at' in spec:
        run_xdev_spec = None
    with common.Scratch('vf-c15-') as d:
        root = os.path.join(d, 'top')
        os.makedirs(root)
        dirs = build_chain(root, spec)
        import gemato.find_top_level as ft
        if case['mode'] == 'symlink':
            base = os.path.join(d, 'elsewhere', 'x')
            os.makedirs(base, exist_ok=True)
            os.symlink(dirs[case['start']], os.path.join(base, 'link%d' % case['start']))
        call(ctx, ft, dirs, case['start'], case['allow_compressed'],
             case['allow_xdev'], case['mode'], case)


if __name__ == '__main__':
    if len(sys.argv) > 1 and sys.argv[1] == '--xdev-child':
        xdev_child(sys.argv[2:])
