"""C06 - I/O errors never turn into success or into 'file absent'.

Three layers over one corpus of generated consistent trees:
  fp      FsFailpoints: a counting run, then one execution per (call class, n-th
          call, errno): complete enumeration of single fault placements at the
          Python/libc boundary, for strict verify, keep-going verify and the scan
          phase of update (with WriteAudit + before/after snapshot).
  strace  the same placements injected by the kernel (`strace -e inject=`) into a
          fresh interpreter, on a sample - no Python-level blind spots.
  priv    genuine EACCES: a forked child drops to uid 65534 and meets a mode-000
          file / directory / Manifest.
"""
import errno
import json
import logging
import os
import re
import shutil
import subprocess
import sys

from vf import adapt, common
from vf.gen import scenario
from vf.gen import tree as gtree
from vf.model import mtext
from vf.mon import audit, failpoints

ID = 'C06'
LEVEL = 'fault_enumeration'
RULE = ('fp: for each generated consistent tree and each operation {verify strict, '
        'verify keep-going, update scan}: every (call class in %s) x every call index '
        'seen in a counting run x errno set - one execution per placement, complete '
        'for single faults; strace: kernel-level injection on openat/newfstatat/fstat/'
        'read/getdents64/statx for a sample; priv: uid 65534 vs mode-000 objects at '
        'every position. Non-trivial = the fault fired; distinct = (tree, op, class, '
        'index, errno).' % failpoints.CLASSES)
ANCHORS = ['verify:get_file_metadata', 'recursiveloader:ManifestLoader.verify_and_load',
           'recursiveloader:ManifestRecursiveLoader.assert_directory_verifies',
           'recursiveloader:ManifestRecursiveLoader.update_entries_for_directory',
           'recursiveloader:ManifestRecursiveLoader.load_unregistered_manifests',
           'util:throw_exception', 'compression:open_potentially_compressed_path']
REQUIRED = ['verify:get_file_metadata', 'faults_fired', 'fp:verify', 'fp:verify-k',
            'fp:update', 'fp:verify-mtime', 'fp:update-inc', 'fp:cli-k', 'fp:cli-sub', 'fp:verify-j2', 'fp:update-j3', 'fp:cli-j2', 'priv_runs', 'strace_runs',
            'fp:create-fresh']
ASSUMPTIONS = ['single faults (one injected error per execution)',
               'ENOENT, ENXIO, EOPNOTSUPP are excluded (statement / device-only, U9)',
               'Python-level failpoints cover os.open os.stat os.lstat os.fstat '
               'os.scandir builtins.open and reads/iteration of what they return; '
               'DirEntry.is_dir() and C-level libc calls are covered by the strace '
               'layer only; in that layer a tolerated stat-family fault is not a '
               'verdict (CPython io.open ignores its own fstat failures)']

ERRNOS = [errno.EACCES, errno.EPERM, errno.EIO, errno.ENOMEM, errno.ELOOP,
          errno.ENOTDIR, errno.EMFILE, errno.ENFILE, errno.ESTALE, errno.EOVERFLOW]
OPS = ['verify', 'verify-k', 'update', 'verify-mtime', 'update-inc',
       # the same with more than one job requested (max_jobs / --jobs)
       'verify-j2', 'update-j3']
CLI_OPS = ['cli-k', 'cli-sub', 'cli-j2']      # through gemato.cli.main (discovery included)
NTREES = {'quick': 24, 'thorough': 600}


def units(tier, seed):
    u = [{'k': 'fp', 'i': i} for i in range(NTREES[tier])]
    # ... of which a few always hold a stray UNIX socket (an object that cannot be opened)
    for i in range(3 if tier == 'quick' else 30):
        u.append({'k': 'fp', 'i': 5000 + i, 'force': 'stray-socket'})
    for i in range(3 if tier == 'quick' else 40):
        u.append({'k': 'strace', 'i': i})
    for i in range(40 if tier == 'quick' else 1200):
        u.append({'k': 'priv', 'i': i})
    return u


def setup_worker(ctx):
    common.use_repo()
    logging.getLogger().setLevel(logging.CRITICAL)
    audit.install()
    # everything the privilege-dropped child will need must be imported now
    import gemato.cli  # noqa
    import gemato.recursiveloader  # noqa
    import encodings.utf_8, encodings.ascii, encodings.latin_1  # noqa
    import gzip, bz2, lzma, traceback, json  # noqa
    import _strptime, datetime  # noqa  (datetime.strptime imports it lazily)
    datetime.datetime.strptime('2020-01-01T00:00:00Z', '%Y-%m-%dT%H:%M:%SZ')


def build_tree(rng, root, force=None):
    """Consistent tree; every second one gets one stray file (the object whose
    failing access must not be mistaken for 'absent')."""
    classes = []
    r = rng.random()
    if force:
        classes = [force]
    elif r < 0.25:
        classes = ['stray']
    elif r < 0.4:
        # a stray FIFO or UNIX socket: a failing access must not make it "absent"
        classes = ['stray-special']
    elif r < 0.6:
        # an unreferenced file that has a Manifest name (valid Manifest or not): a
        # candidate the update scan has to open
        classes = [rng.choice(['stray-manifest-name', 'unreg-valid', 'unreg-invalid'])]
    case, layout, info = scenario.build(
        rng, root, classes, 1 if classes else 0,
        {'max_dirs': 4, 'max_files': 8, 'specials': False,
         'symlinks': rng.random() < 0.3, 'p_ignore': 0.2})
    return case, layout, info


def run_op(root, op, sub=None):
    """-> ('ret', value) | ('exc', exception)"""
    from gemato.recursiveloader import ManifestRecursiveLoader
    try:
        if op in CLI_OPS:
            from gemato import cli as gcli
            argv = ['gemato', 'verify', '-P']
            if op == 'cli-k':
                argv += ['-k', root]
            elif op == 'cli-j2':
                argv += ['-j', '2', root]
            else:
                argv += [os.path.join(root, sub)]
            # (as the installed command runs: informational messages are formatted
            # and emitted, so whatever their arguments evaluate lazily is evaluated)
            lg = logging.getLogger()
            old_level = lg.level
            sink = open(os.devnull, 'w')
            hnd = logging.StreamHandler(sink)
            lg.addHandler(hnd)
            lg.setLevel(logging.INFO)
            try:
                rc = gcli.main(argv)
            except SystemExit as exc:
                rc = 'exit'
            finally:
                lg.setLevel(old_level)
                lg.removeHandler(hnd)
                sink.close()
            # for the CLI 'True' means exit status 0
            return ('ret', True if rc == 0 else rc)
        if op == 'verify':
            m = ManifestRecursiveLoader(os.path.join(root, 'Manifest'),
                                        verify_openpgp=False)
            return ('ret', m.assert_directory_verifies(''))
        if op == 'verify-j2':
            m = ManifestRecursiveLoader(os.path.join(root, 'Manifest'),
                                        verify_openpgp=False, max_jobs=2)
            return ('ret', m.assert_directory_verifies(''))
        if op == 'verify-k':
            m = ManifestRecursiveLoader(os.path.join(root, 'Manifest'),
                                        verify_openpgp=False)
            return ('ret', m.assert_directory_verifies('',
                                                       fail_handler=lambda e: False))
        if op == 'verify-mtime':
            # nothing is newer than last_mtime: unchanged-looking files may be skipped
            m = ManifestRecursiveLoader(os.path.join(root, 'Manifest'),
                                        verify_openpgp=False)
            return ('ret', m.assert_directory_verifies('', last_mtime=4e9))
        m = ManifestRecursiveLoader(os.path.join(root, 'Manifest'),
                                    verify_openpgp=False, hashes=['SHA256', 'MD5'],
                                    max_jobs=3 if op == 'update-j3' else None)
        if op == 'update-inc':
            m.update_entries_for_directory('', last_mtime=4e9)
        else:
            m.update_entries_for_directory('')
        return ('ret', 'updated')
    except Exception as exc:
        return ('exc', exc)


def judge_outcome(ctx, op, kind, val, fired, case, err):
    from gemato.exceptions import GematoException
    name = errno.errorcode.get(err, str(err))
    if kind == 'ret':
        if (op.startswith('verify') or op in CLI_OPS) and val is True:
            ctx.violation('fault-swallowed:%s:%s' % (op, fired[0]),
                          '%s returned True although %s #%d (%s) failed with %s'
                          % (op, fired[0], fired[1], fired[2], name), case)
        elif op.startswith('update'):
            ctx.violation('update-survives-fault:%s' % fired[0],
                          'update scan completed although %s #%d (%s) failed with %s'
                          % (fired[0], fired[1], fired[2], name), case)
        return
    exc = val
    if isinstance(exc, (OSError, GematoException)):
        return
    ctx.violation('fault-internal-error:' + adapt.exc_key(exc),
                  '%s turned an injected %s at %s into %r' % (op, name, fired[0], exc),
                  case)


def run_fp(u, ctx):
    rng = common.rng_for(ctx.seed, ID, 'fp', u['i'])
    with common.Scratch('vf-c06-') as d:
        root = os.path.join(d, 't')
        try:
            tcase, layout, info = build_tree(rng, root, u.get('force'))
        except RuntimeError:
            ctx.discarded('generator')
            return
        if u.get('force'):
            ctx.count('fp_forced:' + u['force'])
        subs = [d for d in info['mdirs'] if d]
        sub = subs[0] if subs else None
        for op in OPS + CLI_OPS:
            if op == 'cli-sub' and sub is None:
                continue
            snap0 = gtree.snapshot(root)
            with failpoints.Failpoints(root) as fp0:
                kind, val = run_op(root, op, sub)
            counts = dict(fp0.counts)
            has_stray = bool(tcase['mutations'])
            if op == 'cli-sub' and (kind != 'ret' or val is not True):
                # (the sub-directory itself may hold the stray: fine, faults must
                # still never turn the outcome into success)
                pass
            if not has_stray and (kind != 'ret' or (not op.startswith('update')
                                                    and val is not True)):
                ctx.discarded('baseline of %s not clean: %r' % (op, val))
                continue
            if op.startswith('update') and kind != 'ret':
                ctx.discarded('baseline update failed: %r' % (val,))
                continue
            ctx.count('fp:' + op)
            ctx.extra.setdefault('call_counts', {})
            for k, v in counts.items():
                ctx.extra['call_counts'][op + ':' + k] = \
                    ctx.extra['call_counts'].get(op + ':' + k, 0) + v
            errs = ERRNOS if ctx.tier == 'thorough' else None
            for klass, total in counts.items():
                for n in range(total):
                    if errs is None and total <= 16:
                        es = ERRNOS
                    elif errs is None:
                        es = [errno.EACCES, errno.EIO,
                              ERRNOS[2 + (n + len(klass)) % (len(ERRNOS) - 2)]]
                    else:
                        es = errs
                    for err in es:
                        case = {'kind': 'fp', 'force': u.get('force'), 'tree': u['i'], 'op': op,
                                'class': klass, 'n': n, 'errno': err,
                                'gen_seed': ctx.seed}
                        with audit.Recording(root) as rec:
                            with failpoints.Failpoints(root, (klass, n), err) as fp:
                                kind, val = run_op(root, op, sub)
                        if fp.fired is None:
                            ctx.count('fault_not_reached')
                            continue
                        ctx.count('faults_fired')
                        ctx.case(sig=('fp', op, klass, errno.errorcode[err]),
                                 case=case, klass='fp-' + op)
                        judge_outcome(ctx, op, kind, val, fp.fired, case, err)
                        if rec.events:
                            ctx.violation('write-during-failed-%s' % op,
                                          'write-intent events during a failing %s: '
                                          '%r' % (op, rec.events[:3]), case)
                        if op.startswith('update') or rec.events:
                            if gtree.snapshot(root) != snap0:
                                ctx.violation('tree-changed-by-failed-%s' % op,
                                              'tree differs after a failed %s' % op,
                                              case)
                                return
        run_createfresh(ctx, root, d, u)
        ctx.sample({'tree': u['i'], 'call_counts': counts}, 'fp')


def run_createfresh(ctx, root, d, u):
    """`gemato create` on a tree that has no Manifest at all yet, with one fault in
    the scan: the command fails and nothing - not even an empty Manifest - is left."""
    from gemato import cli as gcli
    from gemato.recursiveloader import ManifestRecursiveLoader as L
    fresh = os.path.join(d, 'fresh')
    common.copy_tree(root, fresh)
    for dp, dn, fn in os.walk(fresh):
        for f in fn:
            if f == 'Manifest' or f.startswith('Manifest.'):
                os.unlink(os.path.join(dp, f))
    snap0 = gtree.snapshot(fresh)

    def restore():
        for dp, dn, fn in os.walk(fresh):
            for f in fn:
                rel = os.path.relpath(os.path.join(dp, f), fresh)
                if rel not in snap0:
                    os.unlink(os.path.join(dp, f))

    def create():
        try:
            return gcli.main(['gemato', 'create', '--hashes', 'SHA256', fresh])
        except SystemExit:
            return 'exit'
        except Exception as exc:
            return exc
    with failpoints.Failpoints(fresh) as fp0:
        rc = create()
    restore()
    if rc != 0:
        ctx.discarded('baseline create failed: %r' % (rc,))
        return
    entered = []
    orig_save = L.save_manifests

    def save_manifests(loader, *a, **kw):
        entered.append(1)
        return orig_save(loader, *a, **kw)
    L.save_manifests = save_manifests
    try:
        for klass, total in fp0.counts.items():
            for n in range(min(total, 5)):
                for err in (errno.EACCES, errno.EIO):
                    case = {'kind': 'fp', 'force': u.get('force'), 'tree': u['i'], 'op': 'create-fresh',
                            'class': klass, 'n': n, 'errno': err, 'gen_seed': ctx.seed}
                    del entered[:]
                    with failpoints.Failpoints(fresh, (klass, n), err) as fp:
                        rc = create()
                    if fp.fired is None:
                        restore()
                        continue
                    ctx.count('fp:create-fresh')
                    ctx.case(sig=('fp', 'create-fresh', klass, errno.errorcode[err]),
                             case=case, klass='fp-create-fresh')
                    if rc == 0 and not entered:
                        ctx.violation('update-survives-fault:' + fp.fired[0],
                                      'create completed although %s #%d (%s) failed'
                                      % fp.fired, case)
                    elif rc != 0 and not entered and gtree.snapshot(fresh) != snap0:
                        left = sorted(set(gtree.snapshot(fresh)) - set(snap0))
                        ctx.violation('tree-changed-by-failed-create',
                                      'create failed (%r) in the scan (%s #%d) and left %r '
                                      'behind' % (rc, fp.fired[0], fp.fired[1], left[:3]),
                                      case)
                    restore()
    finally:
        L.save_manifests = orig_save


# ------------------------------------------------------------------ priv

PRIV_KINDS = ['listed-file', 'stray-file', 'directory', 'sub-manifest', 'top-manifest',
              'listed-in-sub', 'dir-with-manifest']


def run_priv_generated(u, ctx):
    """mode-000 object at a random position of a *generated* tree."""
    rng = common.rng_for(ctx.seed, ID, 'privgen', u['i'])
    op = OPS[u['i'] % 3]
    with common.Scratch('vf-c06q-', base='/tmp') as d:
        os.chmod(d, 0o755)
        root = os.path.join(d, 't')
        try:
            tcase, layout, info = scenario.build(
                rng, root, ['stray'], rng.choice([0, 1]),
                {'max_dirs': 4, 'max_files': 8, 'specials': False, 'symlinks': False,
                 'p_ignore': 0, 'hostile': rng.choice([0, 0.4])})
        except RuntimeError:
            ctx.discarded('generator')
            return
        cands = []
        for dp, dn, fn in os.walk(root):
            os.chmod(dp, 0o755)
            # nothing beneath a hidden directory is ever accessed by gemato, so an
            # unreadable object there is no fault the operation could meet
            hidden = any(c.startswith('.') for c in
                         os.path.relpath(dp, root).split(os.sep) if c != '.')
            for x in fn:
                os.chmod(os.path.join(dp, x), 0o644)
                if not x.startswith('.') and not hidden:
                    cands.append(os.path.relpath(os.path.join(dp, x), root))
            for x in dn:
                if not x.startswith('.') and not hidden:
                    cands.append(os.path.relpath(os.path.join(dp, x), root))
        cands.sort()
        target = cands[rng.randrange(len(cands))]
        is_dir = os.path.isdir(os.path.join(root, target))
        kind = ('directory' if is_dir else 'manifest' if os.path.basename(
            target).startswith('Manifest') else 'stray-file' if any(
            r.get('path') == target for r in tcase['mutations']) else 'listed-file')
        priv_execute(ctx, root, target, kind, op, {'kind': 'privgen', 'i': u['i'],
                                                   'gen_seed': ctx.seed})


def run_priv(u, ctx):
    if u['i'] % 2:
        return run_priv_generated(u, ctx)
    rng = common.rng_for(ctx.seed, ID, 'priv', u['i'])
    kind = PRIV_KINDS[(u['i'] // 2) % len(PRIV_KINDS)]
    op = OPS[(u['i'] // (2 * len(PRIV_KINDS))) % 3]
    base = '/tmp' if os.access('/tmp', os.W_OK) else common.scratch_base()
    with common.Scratch('vf-c06p-', base=base) as d:
        os.chmod(d, 0o755)
        root = os.path.join(d, 't')
        os.makedirs(os.path.join(root, 'sub', 'deep'))
        files = {'a.txt': b'aaa', 'sub/b.txt': b'bbbb', 'sub/deep/c.txt': b'c'}
        for p, data in files.items():
            with open(os.path.join(root, p), 'wb') as f:
                f.write(data)
        sub_ents = [mtext.file_entry('DATA', 'b.txt', files['sub/b.txt'], ['SHA1']),
                    mtext.file_entry('DATA', 'deep/c.txt', files['sub/deep/c.txt'],
                                     ['SHA1'])]
        fmt = rng.choice(['plain', 'gz', 'xz'])
        sm = 'sub/Manifest' + ('' if fmt == 'plain' else '.' + fmt)
        smdata = mtext.compress(fmt, mtext.render(sub_ents).encode())
        with open(os.path.join(root, sm), 'wb') as f:
            f.write(smdata)
        top = [mtext.file_entry('DATA', 'a.txt', files['a.txt'], ['SHA1']),
               mtext.file_entry('MANIFEST', sm, smdata, ['SHA256'])]
        target = {'listed-file': 'a.txt', 'listed-in-sub': 'sub/deep/c.txt',
                  'directory': 'sub/deep', 'sub-manifest': sm,
                  'top-manifest': 'Manifest', 'dir-with-manifest': 'sub'}.get(kind)
        if kind == 'stray-file':
            target = rng.choice(['stray', 'sub/stray', 'sub/deep/stray'])
            with open(os.path.join(root, target), 'w') as f:
                f.write('s')
        with open(os.path.join(root, 'Manifest'), 'w') as f:
            f.write(mtext.render(top))
        for dp, dn, fn in os.walk(root):
            os.chmod(dp, 0o755)
            for x in fn:
                os.chmod(os.path.join(dp, x), 0o644)
        priv_execute(ctx, root, target, kind, op, {'kind': 'priv', 'i': u['i'],
                                                   'gen_seed': ctx.seed})


def priv_execute(ctx, root, target, kind, op, case):
    if True:
        os.chmod(os.path.join(root, target), 0)
        snap0 = gtree.snapshot(root)
        case = dict(case, what=kind, op=op, target=target)
        ctx.case(sig=('priv', kind, op, case['kind']), case=case, klass=case['kind'])
        ctx.count('priv_runs')
        r, w = os.pipe()
        pid = os.fork()
        if pid == 0:
            try:
                os.close(r)
                os.setgroups([])
                os.setgid(65534)
                os.setuid(65534)
                if os.access(os.path.join(root, target), os.R_OK):
                    out = {'kind': 'noeffect'}
                else:
                    k, val = run_op(root, op)
                    out = {'kind': k, 'val': repr(val),
                           'exc': type(val).__name__ if k == 'exc' else None,
                           'errno': getattr(val, 'errno', None)}
                os.write(w, json.dumps(out).encode())
            except BaseException as exc:
                try:
                    os.write(w, json.dumps({'kind': 'child-error',
                                            'val': repr(exc)}).encode())
                except Exception:
                    pass
            finally:
                os._exit(0)
        os.close(w)
        data = b''
        while True:
            chunk = os.read(r, 65536)
            if not chunk:
                break
            data += chunk
        os.close(r)
        os.waitpid(pid, 0)
        os.chmod(os.path.join(root, target), 0o755)
        try:
            out = json.loads(data.decode())
        except ValueError:
            ctx.count('harness_error')
            return
        if out['kind'] in ('noeffect', 'child-error'):
            ctx.count('harness_error')
            ctx.extra.setdefault('harness_errors', []).append(repr(out)[:200])
            return
        if out['kind'] == 'ret':
            if op.startswith('verify') and out['val'] == 'True':
                ctx.violation('unreadable-%s-accepted:%s' % (kind, op),
                              '%s succeeded as uid 65534 although %s %r has mode 000'
                              % (op, kind, target), case)
            elif op == 'update':
                ctx.violation('update-survives-unreadable-%s' % kind,
                              'update scan completed although %s %r is unreadable'
                              % (kind, target), case)
        else:
            if out['exc'] not in ('PermissionError', 'ManifestMismatch', 'OSError'):
                ctx.violation('unreadable-%s-wrong-failure:%s' % (kind, out['exc']),
                              'unreadable %s made %s fail with %s' % (kind, op,
                                                                      out['val']), case)
        os.chmod(os.path.join(root, target), 0)
        if gtree.snapshot(root) != snap0:
            ctx.violation('tree-changed-priv', 'tree changed during a failing run',
                          case)
        os.chmod(os.path.join(root, target), 0o755)
        ctx.sample(dict(case, outcome=out), 'priv')


# ------------------------------------------------------------------ strace

CHILD = r'''
import sys, os, json
sys.path.insert(0, %(repo)r)
from gemato.recursiveloader import ManifestRecursiveLoader
root, op = sys.argv[1], sys.argv[2]
try:
    if op == 'update':
        m = ManifestRecursiveLoader(os.path.join(root, 'Manifest'), verify_openpgp=False,
                                    hashes=['SHA256'])
        m.update_entries_for_directory('')
        print('RESULT ret updated')
    else:
        m = ManifestRecursiveLoader(os.path.join(root, 'Manifest'), verify_openpgp=False)
        kw = {'fail_handler': (lambda e: False)} if op == 'verify-k' else {}
        print('RESULT ret %%r' %% (m.assert_directory_verifies('', **kw),))
except BaseException as exc:
    print('RESULT exc %%s %%r' %% (type(exc).__name__, exc))
'''

SYSCALLS = ['openat', 'newfstatat', 'fstat', 'read', 'getdents64', 'statx']


def strace_run(root, op, inject=None, paths=()):
    code = CHILD % {'repo': common.REPO}
    cmd = ['strace', '-f', '-qq', '-o', '/dev/null']
    if inject:
        sc, n, name = inject
        cmd += ['-e', 'trace=' + sc, '-e', 'inject=%s:error=%s:when=%d' % (sc, name, n)]
    else:
        cmd += ['-c', '-e', 'trace=' + ','.join(SYSCALLS)]
    for p in paths:
        cmd += ['-P', p]
    cmd += [common.PY, '-c', code, root, op]
    env = dict(os.environ, PYTHONDONTWRITEBYTECODE='1')
    r = subprocess.run(cmd, capture_output=True, text=True, timeout=120, env=env)
    m = re.search(r'^RESULT (\w+) (.*)$', r.stdout, re.M)
    return (m.group(1), m.group(2)) if m else ('none', r.stdout[-200:] + r.stderr[-300:]), r


def count_syscalls(root, op, paths):
    """Number of traced calls per syscall touching the tree (strace -c output)."""
    code = CHILD % {'repo': common.REPO}
    with common.Scratch('vf-c06s-') as d:
        out = os.path.join(d, 'c.txt')
        cmd = ['strace', '-f', '-qq', '-c', '-o', out, '-e',
               'trace=' + ','.join(SYSCALLS)]
        for p in paths:
            cmd += ['-P', p]
        cmd += [common.PY, '-c', code, root, op]
        subprocess.run(cmd, capture_output=True, text=True, timeout=120,
                       env=dict(os.environ, PYTHONDONTWRITEBYTECODE='1'))
        counts = {}
        if os.path.exists(out):
            for ln in open(out):
                f = ln.split()
                if len(f) >= 4 and f[-1] in SYSCALLS and f[3].isdigit():
                    counts[f[-1]] = int(f[3])
    return counts


def run_strace(u, ctx):
    rng = common.rng_for(ctx.seed, ID, 'strace', u['i'])
    if not shutil.which('strace'):
        ctx.notes['strace_missing'] += 1
        return
    with common.Scratch('vf-c06t-') as d:
        root = os.path.join(d, 't')
        try:
            tcase, layout, info = scenario.build(
                rng, root, [], 0, {'max_dirs': 2, 'max_files': 4, 'specials': False,
                                   'symlinks': False, 'p_ignore': 0})
        except RuntimeError:
            ctx.discarded('generator')
            return
        paths = [root]
        for dp, dn, fn in os.walk(root):
            for x in dn + fn:
                paths.append(os.path.join(dp, x))
        op = OPS[u['i'] % 3]
        (kind, val), r = strace_run(root, op, None, paths)
        if kind != 'ret' or (op != 'update' and val != 'True'):
            ctx.discarded('strace baseline not clean: %s %s' % (kind, val[:80]))
            return
        counts = count_syscalls(root, op, paths)
        ctx.extra.setdefault('strace_syscall_counts', {})
        for k, v in counts.items():
            ctx.extra['strace_syscall_counts'][k] = \
                ctx.extra['strace_syscall_counts'].get(k, 0) + v
        snap0 = gtree.snapshot(root)
        for sc, total in sorted(counts.items()):
            for n in range(1, total + 1):
                name = ['EACCES', 'EIO', 'ENOMEM', 'ELOOP', 'EPERM'][(n + len(sc)) % 5]
                if sc in ('read', 'getdents64', 'fstat') and name == 'ELOOP':
                    name = 'EIO'
                case = {'kind': 'strace', 'tree': u['i'], 'op': op, 'syscall': sc,
                        'when': n, 'errno': name, 'gen_seed': ctx.seed}
                (kind, val), r = strace_run(root, op, (sc, n, name), paths)
                ctx.count('strace_runs')
                ctx.case(sig=('strace', op, sc, name), case=case, klass='strace-' + op)
                if kind == 'ret' and sc in ('newfstatat', 'fstat', 'statx'):
                    # CPython's own io.open() fstat()s every descriptor it opens
                    # (block size / is-a-directory probe) and ignores a failure
                    # there; at the kernel boundary that call is indistinguishable
                    # from gemato's own os.fstat(), so a success is not decidable
                    ctx.count('strace_stat_fault_tolerated')
                elif kind == 'ret' and (val == 'True' or op == 'update'):
                    # ENOENT-like meaning? we never inject ENOENT: success is wrong
                    ctx.violation('kernel-fault-swallowed:%s:%s' % (op, sc),
                                  '%s succeeded although the %d. %s on the tree failed '
                                  'with %s (kernel-level injection)' % (op, n, sc, name),
                                  case)
                elif kind == 'exc':
                    exn = val.split(' ', 1)[0]
                    if exn not in ('OSError', 'PermissionError', 'ManifestMismatch',
                                   'NotADirectoryError', 'MemoryError',
                                   'IsADirectoryError', 'BadGzipFile', 'LZMAError',
                                   'EOFError') and not exn.startswith('Manifest'):
                        ctx.count('strace_other_exception:' + exn)
                elif kind == 'none':
                    ctx.count('strace_child_died')
        if gtree.snapshot(root) != snap0:
            ctx.violation('tree-changed-strace', 'tree changed during failing runs',
                          {'kind': 'strace', 'tree': u['i']})
        ctx.sample({'tree': u['i'], 'op': op, 'syscalls': counts}, 'strace')


def run_unit(u, ctx):
    {'fp': run_fp, 'priv': run_priv, 'strace': run_strace}[u['k']](u, ctx)


def replay(case, ctx):
    ctx.seed = case.get('gen_seed', ctx.seed)
    if case['kind'] == 'fp':
        rng = common.rng_for(ctx.seed, ID, 'fp', case['tree'])
        with common.Scratch('vf-c06-') as d:
            root = os.path.join(d, 't')
            tc, lay, info = build_tree(rng, root, case.get('force'))
            subs = [d for d in info['mdirs'] if d]
            with failpoints.Failpoints(root, (case['class'], case['n']),
                                       case['errno']) as fp:
                kind, val = run_op(root, case['op'], subs[0] if subs else None)
            if fp.fired:
                judge_outcome(ctx, case['op'], kind, val, fp.fired, case,
                              case['errno'])
    elif case['kind'] == 'priv':
        run_priv({'i': case['i']}, ctx)
    elif case['kind'] == 'privgen':
        run_priv_generated({'i': case['i']}, ctx)
    else:
        run_strace({'i': case['tree']}, ctx)
