"""C01 - recursive verification accepts exactly the trees that match.

Each case: a generated tree with a consistent Manifest layout, 0..3 mutations,
a verified sub-path and a last_mtime; the real
ManifestRecursiveLoader.assert_directory_verifies and `gemato verify` are run
and compared with the independent predicate vf.model.match.  Monitors: a hook on
hash_file records which files were really hashed (skip-set), contracts on
path_starts_with / path_inside_dir / find_top_level_manifest run on every call.
"""
import logging
import os

from vf import adapt, common
from vf.gen import mutate as gmutate
from vf.gen import scenario
from vf.model import match as mmatch
from vf.model import mtext
from vf.mon import contracts

ID = 'C01'
LEVEL = 'exploration'
RULE = ('case = seeded tree (<= 6 dirs, <= 14 files, hostile names, hidden files, file/'
        'dir symlinks, special files) + consistent Manifest layout (nested / split '
        'Manifests, 5 compression formats, duplicate entries, IGNOREs incl. '
        'look-alikes) + k in 0..3 mutations from %d classes + verified sub-path + '
        'last_mtime in {None, older, newer, equal, +-0.25s}; big = the same with <= 40 '
        'dirs, 150 files, depth 12, <= 6 mutations; history = a matching tree re-verified '
        'on the same and on a fresh loader after an in-place rewrite of a listed file. '
        'Non-trivial = the model '
        'constrains the verdict and (k > 0 or sub-path/last_mtime non-default); '
        'distinct = hash of the materialised case.' % (
            len(gmutate.FS_CLASSES) + len(gmutate.MAN_CLASSES) + len(gmutate.ODD_CLASSES)))
ANCHORS = ['recursiveloader:ManifestRecursiveLoader.assert_directory_verifies',
           'recursiveloader:ManifestRecursiveLoader.get_file_entry_dict',
           'recursiveloader:SubprocessVerifier.__call__', 'verify:verify_path',
           'verify:verify_entry_compatibility', 'util:path_starts_with',
           'cli:VerifyCommand.__call__']
REQUIRED = ['recursiveloader:ManifestRecursiveLoader.assert_directory_verifies',
            'expect:accept', 'expect:reject', 'contract:path_starts_with',
            'skipset_checked', 'cli_runs', 'keepgoing_runs', 'history_reverifications',
            'cli_two_tree_runs']
ASSUMPTIONS = ['zones U1-U4, U10, U11 are unconstrained (see DESIGN.md 1.1)',
               'permission-based unreadability is C06']

CLASSES = (gmutate.FS_CLASSES * 3 + gmutate.MAN_CLASSES * 2 + gmutate.ODD_CLASSES
           + ['rmdir-ignore-first'] * 3 + ['m-ignore-missing-parent'] * 2)
N = {'quick': 3000, 'thorough': 150000}
PER_UNIT = 25

_hashed = set()


BIG = {'max_dirs': 40, 'max_files': 150, 'depth': 12}


def units(tier, seed):
    u = [{'k': 'gen', 'i': i, 'n': PER_UNIT} for i in range(N[tier] // PER_UNIT)]
    # trees an order of magnitude larger and three times deeper, several mutations
    for i in range(8 if tier == 'quick' else 400):
        u.append({'k': 'big', 'i': 100000 + i, 'n': 2})
    return u


def setup_worker(ctx):
    common.use_repo()
    logging.getLogger().setLevel(logging.CRITICAL)
    contracts.install_path_prefix(ctx)
    contracts.install_find_top(ctx)
    install_hash_hook()


def install_hash_hook():
    import gemato.verify as gv
    orig = gv.hash_file
    if getattr(orig, '_vf_wrapped', False):
        return

    def hooked(f, hash_names, _apparent_size=0):
        try:
            _hashed.add(os.readlink('/proc/self/fd/%d' % f.fileno()))
        except (OSError, AttributeError, ValueError):
            pass
        return orig(f, hash_names, _apparent_size=_apparent_size)
    hooked._vf_wrapped = True
    gv.hash_file = hooked


def run_lib(root, sub, last_mtime, keep_going=None):
    """-> ('ok', bool) | ('exc', exception)"""
    from gemato.recursiveloader import ManifestRecursiveLoader
    try:
        m = ManifestRecursiveLoader(os.path.join(root, 'Manifest'),
                                    verify_openpgp=False)
        kw = {}
        if last_mtime is not None:
            kw['last_mtime'] = last_mtime
        r = m.assert_directory_verifies(sub, **kw)
        return ('ok', r)
    except Exception as exc:
        return ('exc', exc)


def run_cli(root, sub):
    from gemato import cli as gcli
    try:
        return gcli.main(['gemato', 'verify', '-P',
                          os.path.join(root, sub) if sub else root])
    except SystemExit as exc:
        return 'exit:%r' % (exc.code,)
    except Exception as exc:
        return exc


def allowed_exceptions(res):
    al = set()
    if res.chain or res.required:
        al.add('ManifestMismatch')
    if res.incompatible:
        al.add('ManifestIncompatibleEntry')
    if res.enotdir:
        al.add('NotADirectoryError')
    kinds = list(res.required.values()) + list(res.optional.values())
    if res.chain:
        kinds.append(res.chain[1])
    if any(k.startswith('unsupported-hash') for k in kinds) or res.has_unsupported:
        al.add('UnsupportedHash')
    return al


def judge(ctx, root, case):
    sub, last_mtime = case['sub'], case['last_mtime']
    res = mmatch.match(root, 'Manifest', sub, last_mtime)
    recs = case['mutations']
    classes = tuple(sorted(r['class'] for r in recs))
    if res.errors:
        ctx.discarded('model could not read the tree: %s' % res.errors[0][:60])
        return
    # ---- oracle self-check against the generator's bookkeeping
    if not recs and not res.must_accept and not res.unconstrained:
        ctx.inconsistent('unmutated consistent tree judged offending by the model: '
                         '%r' % (res.summary(),), case)
        return
    for r in recs:
        p = r.get('path')
        if r['class'] in ('delete', 'size', 'stray', 'stray-lookalike',
                          'stray-special', 'stray-manifest-name', 'm-size',
                          'm-ghost', 'm-drop') and p:
            if mtext.comp_prefix(p, sub) and p not in res.required \
                    and p not in res.optional and not res.chain \
                    and p not in [q for q, _ in res.incompatible] \
                    and not any(mtext.comp_prefix(p, ig) for ig in res.ignores) \
                    and not any(mtext.comp_prefix(p, q) and p != q for q in list(res.required) + list(res.optional)) \
                    and not any(x['class'] in ('file-over-dir', 'retype', 'delete',
                                               'm-ignore-file', 'm-entry-for-dir',
                                               'rmdir-ignore-first')
                                or x is not r and x.get('path') == p for x in recs):
                ctx.inconsistent('mutation %s of %r not reported by the model: %r'
                                 % (r['class'], p, res.summary()), case)
                return
    constrained = not res.unconstrained
    expect = 'reject' if res.must_reject else ('accept' if res.must_accept
                                               else 'either')
    nontrivial = expect != 'either' and (bool(recs) or sub != ''
                                         or last_mtime is not None)
    kinds = tuple(sorted({k.split(':')[0].split(' ')[0]
                          for k in list(res.required.values())}))
    ctx.case(sig=('c01', classes, expect, kinds, sub != '', last_mtime is not None,
                  bool(res.incompatible), bool(res.chain)),
             case=case, nontrivial=nontrivial, klass='mut%d' % len(recs))
    ctx.count('expect:' + expect)
    if expect == 'either':
        ctx.unconstrained((res.unconstrained or ['optional-only'])[0][:50])

    _hashed.clear()
    kind, val = run_lib(root, sub, last_mtime)
    hashed = set(_hashed)
    detail = {'model': res.summary(), 'lib': repr(val)[:300]}
    if kind == 'ok':
        if val is not True and val is not False:
            ctx.violation('non-bool-result', 'assert_directory_verifies returned %r'
                          % (val,), case, detail)
        if expect == 'reject':
            what = (sorted(res.required.items())[:3] or res.incompatible[:2]
                    or [res.chain])
            ctx.violation('accepts-mismatch:' + '+'.join(sorted(
                {k.split(':')[0] for k in res.required.values()}
                | ({'incompatible'} if res.incompatible else set())
                | ({'chain'} if res.chain else set()))),
                'verification succeeded although the tree does not match: %r'
                % (what,), case, detail)
        elif val is False:
            # default handler raises; a False return without exception is odd
            ctx.violation('false-without-exception', 'strict verification returned '
                          'False instead of raising', case, detail)
        else:
            # skip-set: every listed regular file must have been hashed unless
            # the statement licenses skipping it
            ctx.count('skipset_checked')
            for p, e in res.entries.items():
                if p in res.ignores or any(mtext.comp_prefix(p, ig)
                                           for ig in res.ignores):
                    continue
                full = os.path.join(root, p)
                try:
                    st = os.stat(full)
                except OSError:
                    continue
                if not os.path.isfile(full):
                    continue
                real = os.path.realpath(full)
                if real in hashed:
                    continue
                licensed = (last_mtime is not None and st.st_mtime <= last_mtime
                            and st.st_size == e['size'] and st.st_size != 0)
                if not licensed:
                    ctx.violation('skipped-without-license',
                                  'listed file %r was not hashed although it is '
                                  'newer than last_mtime (%r > %r) or no last_mtime '
                                  'was given' % (p, st.st_mtime, last_mtime), case,
                                  detail)
                    break
    else:
        exc = val
        name = type(exc).__name__
        from gemato.exceptions import GematoException
        if expect == 'accept':
            ctx.violation('rejects-matching:' + adapt.exc_key(exc),
                          'verification of a matching tree failed with %r' % (exc,),
                          case, detail)
        elif expect == 'reject':
            al = allowed_exceptions(res)
            if res.unconstrained:
                # the verdict is fixed (a required offender exists) but the way
                # of failing is not: any library failure will do
                if not isinstance(exc, (GematoException, OSError)):
                    ctx.violation('wrong-exception:' + adapt.exc_key(exc),
                                  'mismatching tree rejected with internal error %s'
                                  % name, case, detail)
            elif name not in al:
                ctx.violation('wrong-exception:' + adapt.exc_key(exc),
                              'mismatching tree rejected with %s, expected one of %s'
                              % (name, sorted(al)), case, detail)
            elif res.incompatible and not res.chain and not res.required \
                    and name != 'ManifestIncompatibleEntry':
                ctx.violation('conflict-not-incompatibility:' + name,
                              'conflicting duplicates reported as %s' % name, case,
                              detail)
        else:
            if not isinstance(exc, (GematoException, OSError)):
                ctx.count('either-internal-error:' + name)
    # ---- the same verdict in keep-going mode (handler returning False)
    if expect != 'either':
        from gemato.recursiveloader import ManifestRecursiveLoader
        reports = []
        try:
            m2 = ManifestRecursiveLoader(os.path.join(root, 'Manifest'),
                                         verify_openpgp=False)
            kw = {'last_mtime': last_mtime} if last_mtime is not None else {}
            r2 = m2.assert_directory_verifies(
                sub, fail_handler=lambda e: reports.append(e.path) or False, **kw)
            ctx.count('keepgoing_runs')
            if expect == 'reject' and r2 is not False:
                ctx.violation('keep-going-accepts-mismatch', 'with a handler returning '
                              'False the result is %r although the tree does not match '
                              '(%d report(s))' % (r2, len(reports)), case, detail)
            elif expect == 'accept' and (r2 is not True or reports):
                ctx.violation('keep-going-rejects-matching', 'keep-going verification '
                              'of a matching tree: result %r, reports %r'
                              % (r2, reports[:3]), case, detail)
        except Exception as exc2:
            if expect == 'accept':
                ctx.violation('keep-going-raises-on-matching:' + adapt.exc_key(exc2),
                              'keep-going verification of a matching tree raised %r'
                              % (exc2,), case, detail)
    # ---- CLI must agree with the library (no last_mtime on the command line)
    cli_ok = last_mtime is None
    if cli_ok and sub:
        # `gemato verify DIR` first discovers the top-level Manifest (C15): only
        # compare when discovery is constrained and leads to this tree's top
        from vf.model import findtop
        ft = findtop.find_top(os.path.join(root, sub))
        if ft.unconstrained or {os.path.realpath(a) if a else a for a in ft.answers} \
                != {os.path.realpath(os.path.join(root, 'Manifest'))}:
            cli_ok = False
            ctx.count('cli_skipped_discovery')
    if cli_ok:
        rc = run_cli(root, sub)
        ctx.count('cli_runs')
        lib_ok = (kind == 'ok' and val is True)
        if isinstance(rc, Exception):
            if expect == 'accept':
                ctx.violation('cli-raises:' + adapt.exc_key(rc), '`gemato verify` '
                              'raised %r on a matching tree' % (rc,), case, detail)
        elif expect == 'reject' and rc == 0:
            ctx.violation('cli-exit0-on-mismatch', '`gemato verify` exits 0 although '
                          'the tree does not match', case, detail)
        elif expect == 'accept' and rc != 0:
            ctx.violation('cli-nonzero-on-match', '`gemato verify` exits %r on a '
                          'matching tree' % (rc,), case, detail)
        elif constrained and (rc == 0) != lib_ok and not isinstance(rc, str):
            ctx.violation('cli-lib-disagree', 'CLI exit %r but library %s'
                          % (rc, 'succeeded' if lib_ok else 'failed'), case, detail)
    # ---- a sub-path given through a directory symlink: the command verifies what
    # the library verifies for that very path (differential, no model involved)
    links = []
    for dp, dn, fn in os.walk(root):
        for x in sorted(dn):
            rel = os.path.relpath(os.path.join(dp, x), root)
            if os.path.islink(os.path.join(dp, x)) and os.path.isdir(os.path.join(dp, x)) \
                    and not any(c.startswith('.') for c in rel.split('/')):
                links.append(rel)
    if links:
        from gemato.recursiveloader import ManifestRecursiveLoader
        from vf.model import findtop
        # (only links whose target is a sibling: walking up from the target then passes
        # the same directories as walking up from the link's name - for any other link
        # the command and the library may legitimately mean different directories)
        links = [x for x in sorted(links)
                 if os.path.dirname(os.path.realpath(os.path.join(root, x)))
                 == os.path.realpath(os.path.dirname(os.path.join(root, x)))]
    if links:
        lsub = sorted(links)[0]
        ft = findtop.find_top(os.path.join(root, lsub))
        # (discovery from a symlinked start is only defined where walking up by name
        # and walking up through the link target agree)
        ft2 = findtop.find_top(os.path.realpath(os.path.join(root, lsub)))
        want = {os.path.realpath(os.path.join(root, 'Manifest'))}
        if not ft.unconstrained and not ft2.unconstrained and \
                {os.path.realpath(a) if a else a for a in ft.answers} == want and \
                {os.path.realpath(a) if a else a for a in ft2.answers} == want:
            try:
                m2 = ManifestRecursiveLoader(os.path.join(root, 'Manifest'),
                                             verify_openpgp=False)
                lib2 = m2.assert_directory_verifies(lsub) is True
            except Exception:
                lib2 = False
            rc2 = run_cli(root, lsub)
            ctx.count('cli_symlinked_sub_runs')
            if not isinstance(rc2, (Exception, str)) and (rc2 == 0) != lib2:
                ctx.violation('cli-lib-disagree:symlinked-sub-path', '`gemato verify '
                              'TREE/%s` (a directory symlink) exits %r but the library '
                              'call for that path %s' % (
                                  lsub, rc2, 'succeeds' if lib2 else 'fails'), case,
                              detail)
    if cli_ok and expect == 'reject' and not sub:
        # several trees on one command line: a clean one first, then this one
        other = os.path.join(os.path.dirname(root), 'other-tree')
        os.makedirs(os.path.join(other, 'sub'), exist_ok=True)
        with open(os.path.join(other, 'sub', 'x'), 'w') as f:
            f.write('x')
        with open(os.path.join(other, 'Manifest'), 'w') as f:
            f.write(mtext.render([mtext.file_entry('DATA', 'sub/x', b'x', ['SHA256'])]))
        from gemato import cli as gcli
        try:
            rc2 = gcli.main(['gemato', 'verify', '-P', other, root])
        except SystemExit as exc:
            rc2 = 'exit:%r' % (exc.code,)
        except Exception as exc:
            rc2 = exc
        ctx.count('cli_two_tree_runs')
        if rc2 == 0:
            ctx.violation('cli-exit0-on-mismatch:second-tree', '`gemato verify CLEAN '
                          'THIS` exits 0 although this tree does not match', case, detail)
    if expect == 'accept' and last_mtime is None:
        judge_history(ctx, root, case, res)


def judge_history(ctx, root, case, res):
    """History on one loader (and in one process): a matching tree verifies, then a
    listed file is rewritten in place (same inode, size and timestamps), and the same
    loader - and a fresh one - verify again: both must fail now."""
    from gemato.recursiveloader import ManifestRecursiveLoader
    sub = case['sub']
    victims = []
    for p, e in sorted(res.entries.items()):
        if not mtext.comp_prefix(p, sub) or p in res.ignores or any(
                mtext.comp_prefix(p, ig) for ig in res.ignores):
            continue
        if any(c.startswith('.') for c in p.split('/')):
            continue
        full = os.path.join(root, p)
        if os.path.isfile(full) and not os.path.islink(full) and e['size'] > 0 \
                and e['sums'] and os.path.basename(p) not in MAN_NAMES:
            victims.append(p)
    if not victims:
        return
    p = victims[len(victims) // 2]
    full = os.path.join(root, p)
    try:
        m = ManifestRecursiveLoader(os.path.join(root, 'Manifest'), verify_openpgp=False)
        if m.assert_directory_verifies(sub) is not True:
            return
    except Exception:
        return
    st = os.stat(full)
    with open(full, 'rb') as f:
        data = f.read()
    with open(full, 'r+b') as f:
        f.write(bytes((b + 1) % 256 for b in data))
    os.utime(full, ns=(st.st_atime_ns, st.st_mtime_ns))
    ctx.count('history_reverifications')
    for which, loader in (('same-loader', m), ('fresh-loader', None)):
        try:
            if loader is None:
                loader = ManifestRecursiveLoader(os.path.join(root, 'Manifest'),
                                                 verify_openpgp=False)
            r = loader.assert_directory_verifies(sub)
        except Exception:
            continue
        ctx.violation('accepts-mismatch:after-inplace-rewrite:' + which,
                      'a tree that verified was changed (listed file %r rewritten in '
                      'place, same size and timestamps); verifying again with the %s '
                      'returned %r' % (p, which.replace('-', ' '), r), case)
        return


MAN_NAMES = ['Manifest'] + ['Manifest.' + x for x in mtext.SUFFIXES]


def gen_case(rng, root, big=False):
    nmut = rng.choice([0, 1, 1, 1, 2, 2, 3])
    if big:
        nmut = rng.choice([0, 1, 3, 6])
    case, layout, info = scenario.build(rng, root, CLASSES, nmut, BIG if big else None)
    dirs = scenario.existing_dirs(root)
    case['sub'] = '' if rng.random() < 0.6 else rng.choice(dirs)
    case['last_mtime'] = scenario.pick_last_mtime(rng, case) \
        if rng.random() < 0.5 else None
    return case


def run_unit(u, ctx):
    for j in range(u['n']):
        rng = common.rng_for(ctx.seed, ID, u['i'], j)
        with common.Scratch('vf-c01-') as d:
            root = os.path.join(d, 't')
            try:
                case = gen_case(rng, root, big=(u['k'] == 'big'))
                if u['k'] == 'big':
                    ctx.count('big_trees')
            except RuntimeError as exc:
                ctx.discarded('generator: %s' % exc)
                continue
            judge(ctx, root, case)
            if j == 0:
                ctx.sample({'mutations': case['mutations'], 'sub': case['sub'],
                            'last_mtime': case['last_mtime'],
                            'files': len(case['skel']['nodes']),
                            'manifests': [n['p'] for n in case['manifests']]},
                           'mut%d' % len(case['mutations']))


def replay(case, ctx):
    with common.Scratch('vf-c01-') as d:
        root = os.path.join(d, 't')
        scenario.rebuild(root, case)
        judge(ctx, root, case)
