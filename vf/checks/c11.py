"""C11 - incremental update equals full update.

Two replicas of one tree live through the same history of file operations with
explicitly controlled mtimes; replica A is updated with `gemato update
--incremental`, replica B with a full `gemato update`, under several local
timezones (tzset).  After every round the Manifests (independent reader) must
be equal except for the TIMESTAMP line; the TIMESTAMP written must not be
later than the instant the scan hook saw the first file scanned; a file
modified by the hook right after it was hashed must be picked up by the next
incremental run.
"""
import calendar
import logging
import os
import shutil
import time

from vf import adapt, common
from vf.gen import tree as gtree
from vf.model import mtext
from vf.model import update_post

ID = 'C11'
LEVEL = 'exploration'
RULE = ('history = seeded tree x TZ in {UTC, XXX-8, XXX8, XXX-5:30, XXX12} x up to N '
        'rounds of 1..5 operations {add, delete, modify same size, modify other size, '
        'touch, add a directory that brings its own (chain of) unreferenced Manifests, '
        'right or stale} with mtimes set relative to the previous TIMESTAMP (older, equal, +1 s, '
        '+1 h, +10 h), replayed on an incremental and a full replica; inject = one '
        'running update per file index with that file modified right after it was '
        'hashed. Rounds containing a same-size change with mtime <= TIMESTAMP are '
        'unconstrained. Non-trivial = a round with at least one modification; distinct '
        '= hash of the history.')
ANCHORS = ['cli:UpdateCommand.__call__', 'verify:update_entry_for_path',
           'recursiveloader:ManifestRecursiveLoader.find_timestamp',
           'recursiveloader:ManifestRecursiveLoader.set_timestamp']
REQUIRED = ['cli:UpdateCommand.__call__', 'rounds_compared', 'timestamps_checked',
            'inject_runs', 'inject_right_after_read', 'multi_tree_incremental_runs',
            'tz:XXX8', 'tz:XXX-8', 'tz:CET-1CEST,M3.5.0,M10.5.0/3',
            'dedup_histories', 'mid_manifests_dropped']
ASSUMPTIONS = ['timezones are sampled (POSIX TZ strings without DST)',
               'the system clock does not step during a run']

TZS = ['UTC', 'XXX-8', 'XXX8', 'XXX-5:30', 'XXX12',
       # zones with DST rules (a TIMESTAMP in their standard-time half of the year is
       # obtained by moving the previous TIMESTAMP to January / July)
       'CET-1CEST,M3.5.0,M10.5.0/3', 'EST5EDT,M3.2.0,M11.1.0',
       'AEST-10AEDT,M10.1.0,M4.1.0/3']
N = {'quick': 600, 'thorough': 20000}
PER_UNIT = 6

_counts = {}
_scan = {'first': None, 'hook': None, 'n': 0, 'hash_hook': None, 'hn': 0}


def units(tier, seed):
    u = [{'k': 'hist', 'i': i, 'n': PER_UNIT} for i in range(N[tier] // PER_UNIT)]
    for i in range(20 if tier == 'quick' else 400):
        u.append({'k': 'inject', 'i': i})
    for i in range(10 if tier == 'quick' else 60):
        u.append({'k': 'multi', 'i': i})
    for i in range(6 if tier == 'quick' else 60):
        u.append({'k': 'dedup', 'i': i})
    return u


def setup_worker(ctx):
    common.use_repo()
    logging.getLogger().setLevel(logging.CRITICAL)
    install_scan_hook()


def install_scan_hook():
    import gemato.recursiveloader as rl
    orig = rl.update_entry_for_path
    if getattr(orig, '_vf_wrapped', False):
        return

    def hooked(path, e, **kw):
        if _scan['first'] is None:
            _scan['first'] = time.time()
        r = orig(path, e, **kw)
        _scan['n'] += 1
        if _scan['hook'] is not None:
            _scan['hook'](path, _scan['n'])
        return r
    hooked._vf_wrapped = True
    rl.update_entry_for_path = hooked
    # ... and the moment right after a file's content has been read, before the
    # metadata generator does anything else with the descriptor
    import gemato.verify as gv
    orig_hash = gv.hash_file

    def hooked_hash(f, *a, **kw):
        r = orig_hash(f, *a, **kw)
        if _scan['hash_hook'] is not None:
            _scan['hn'] += 1
            try:
                path = os.readlink('/proc/self/fd/%d' % f.fileno())
            except (OSError, AttributeError, ValueError):
                path = None
            if path:
                _scan['hash_hook'](path, _scan['hn'])
        return r
    gv.hash_file = hooked_hash


class NsTime(float):
    """A time stamp that remembers its exact nanosecond value."""

    def __new__(cls, ns):
        self = float.__new__(cls, ns / 1e9)
        self.ns = ns
        return self


def utime(path, mt):
    if isinstance(mt, NsTime):
        os.utime(path, ns=(mt.ns, mt.ns))
    else:
        os.utime(path, (mt, mt))


def set_tz(tz):
    os.environ['TZ'] = tz
    time.tzset()


def cli(argv):
    from gemato import cli as gcli
    _scan['first'] = None
    _scan['n'] = 0
    try:
        return gcli.main(['gemato'] + argv)
    except SystemExit as exc:
        return 'exit:%r' % (exc.code,)
    except Exception as exc:
        return exc


def read_ts(root):
    ents = mtext.parse_file(os.path.join(root, 'Manifest'))
    for e in ents:
        if e['tag'] == 'TIMESTAMP':
            s = e['ts']
            return calendar.timegm((int(s[0:4]), int(s[5:7]), int(s[8:10]),
                                    int(s[11:13]), int(s[14:16]), int(s[17:19])))
    return None


def manifests_sans_ts(root):
    out = {}
    mans, problems = update_post.reachable_manifests(root, 'Manifest')
    for mp, ents in mans.items():
        out[mp] = sorted(mtext.entry_line(e) for e in ents if e['tag'] != 'TIMESTAMP')
    return out, problems


def list_files(root):
    out = []
    for dp, dn, fn in os.walk(root):
        for f in fn:
            if not f.startswith('Manifest'):
                out.append(os.path.relpath(os.path.join(dp, f), root))
    return sorted(out)


def gen_tree(rng):
    nodes = []
    dirs = ['']
    for i in range(rng.randint(0, 3)):
        parent = rng.choice(dirs)
        p = (parent + '/' if parent else '') + 'd%d' % i
        nodes.append({'p': p, 't': 'd'})
        dirs.append(p)
    for i in range(rng.randint(2, 8)):
        parent = rng.choice(dirs)
        nodes.append({'p': (parent + '/' if parent else '') + 'f%d' % i, 't': 'f',
                      'c': {'r': [rng.randrange(1 << 30), rng.choice([1, 10, 100, 5000])]}})
    for n in nodes:
        # every sixth file or so starts out empty (size 0 is a size like any other)
        if n['t'] == 'f' and n['c']['r'][0] % 6 == 0:
            n['c'] = {'t': ''}
    return {'nodes': nodes}


def gen_round(rng, nops):
    ops = []
    for _ in range(nops):
        ops.append({'kind': rng.choice(['add', 'delete', 'same', 'other', 'touch',
                                        'same', 'same', 'add-subtree', 'edit-sub-dist']),
                    'pick': rng.randrange(1 << 20), 'seed': rng.randrange(1 << 30),
                    'when': rng.choice(['older', 'equal', '+1s', '+1h', '+10h', 'now',
                                        '+1s', '+30m', '+10ms', '+1ns', '+100ns'])})
    return ops


WHEN = {'older': -3600, 'equal': 0, '+10ms': 0.01, '+1s': 1, '+30m': 1800, '+1h': 3600,
        '+10h': 36000, '+1ns': 1e-9, '+100ns': 1e-7}


def apply_round(rootA, rootB, ops, tprev):
    """Apply the same operations to both replicas; returns True if the round is
    constrained (every same-size change is newer than the previous TIMESTAMP)."""
    constrained = True
    modified = False
    before = {}
    for rel in list_files(rootA):
        with open(os.path.join(rootA, rel), 'rb') as f:
            before[rel] = f.read()
    try:
        return _apply_ops(rootA, rootB, ops, tprev)
    finally:
        pass


def final_constrained(rootA, before, tprev):
    """Every file whose content changed at unchanged size must END UP with an mtime
    later than the previous TIMESTAMP (later operations may have touched it)."""
    for rel, old in before.items():
        p = os.path.join(rootA, rel)
        if not os.path.isfile(p):
            continue
        with open(p, 'rb') as f:
            new = f.read()
        if new != old and len(new) == len(old) and \
                os.stat(p).st_mtime_ns <= int(tprev) * 10**9:
            return False
    return True


_fine_files = set()


def _apply_ops(rootA, rootB, ops, tprev):
    _fine_files.clear()
    constrained = True
    modified = False
    before = {}
    for rel in list_files(rootA):
        with open(os.path.join(rootA, rel), 'rb') as f:
            before[rel] = f.read()
    for op in ops:
        rng = common.rng_for('c11op', op['seed'])
        files = list_files(rootA)
        k = op['kind']
        when = op['when']
        mt = None if when == 'now' else tprev + WHEN[when]
        if when in ('+1ns', '+100ns'):
            # beyond what a float can hold next to 1.7e9: set it in nanoseconds
            mt = NsTime(int(tprev) * 10**9 + int(round(WHEN[when] * 10**9)))
        if k == 'add':
            name = 'new%d' % (op['pick'] % 1000)
            d = os.path.dirname(files[op['pick'] % len(files)]) if files else ''
            rel = (d + '/' if d else '') + name
            data = rng.randbytes(rng.choice([1, 50, 3000]))
            for r in (rootA, rootB):
                with open(os.path.join(r, rel), 'wb') as f:
                    f.write(data)
                if mt is not None:
                    utime(os.path.join(r, rel), mt)
            modified = True
            continue
        if k == 'edit-sub-dist':
            # somebody else edits a DIST line of a registered sub-Manifest (same size):
            # no file entry is affected, but the Manifest file itself has changed
            subs = sorted(os.path.relpath(os.path.join(dp, x), rootA)
                          for dp, dn, fn in os.walk(rootA) for x in fn
                          if x == 'Manifest' and dp != rootA)
            subs = [m for m in subs if b'DIST ' in open(os.path.join(rootA, m),
                                                        'rb').read()]
            if not subs or mt is None or mt <= tprev:
                continue
            mrel = subs[op['pick'] % len(subs)]
            for r in (rootA, rootB):
                with open(os.path.join(r, mrel), 'rb') as f:
                    data = f.read()
                i = data.index(b'DIST ')
                j = data.index(b'\n', i) - 1
                data = data[:j] + (b'0' if data[j:j + 1] != b'0' else b'1') + data[j + 1:]
                with open(os.path.join(r, mrel), 'wb') as f:
                    f.write(data)
                utime(os.path.join(r, mrel), mt)
            modified = True
            continue
        if k == 'add-subtree' and (op['pick'] // 6) % 3 == 1:
            # a Manifest dropped into a directory BETWEEN the top and a registered
            # sub-Manifest, listing (with the right size but wrong checksums) a file
            # that the deeper Manifest already lists: a file addition like any other
            cands = []
            for dp, dn, fn in sorted(os.walk(rootA)):
                rel = os.path.relpath(dp, rootA)
                if 'Manifest' in fn and rel.count('/') >= 1 and not os.path.exists(
                        os.path.join(rootA, os.path.dirname(rel), 'Manifest')):
                    try:
                        ents = mtext.parse_file(os.path.join(dp, 'Manifest'))
                    except Exception:
                        continue
                    for e in ents:
                        if e['tag'] == 'DATA' and e['sums'] and '/' not in e['path'] \
                                and os.path.isfile(os.path.join(dp, e['path'])):
                            cands.append((os.path.dirname(rel), os.path.basename(rel), e))
            if not cands:
                continue
            cands.sort(key=lambda c: (c[0], c[1], c[2]['path']))
            parent, sub, e = cands[op['pick'] % len(cands)]
            bogus = dict(e, path=sub + '/' + e['path'],
                         sums={h: ('0' * len(v)) for h, v in e['sums'].items()})
            text = mtext.render([bogus]).encode()
            for r in (rootA, rootB):
                with open(os.path.join(r, parent, 'Manifest'), 'wb') as f:
                    f.write(text)
                if mt is not None:
                    utime(os.path.join(r, parent, 'Manifest'), mt)
            _counts['mid_manifests_dropped'] = _counts.get('mid_manifests_dropped', 0) + 1
            modified = True
            continue
        if k == 'add-subtree':
            # a directory that arrives with its own, so far unreferenced Manifest
            # (unpacked tarball, `cp -a`): file additions only, with any mtimes; the
            # Manifest it brings may be right or stale (right size, wrong digest)
            dn = 'nd%d' % (op['pick'] % 1000)
            if os.path.lexists(os.path.join(rootA, dn)):
                continue
            ents = []
            datas = {}
            for i in range(rng.randint(1, 2)):
                data = rng.randbytes(rng.choice([1, 50, 3000]))
                datas['x%d' % i] = data
                e = mtext.file_entry('DATA', 'x%d' % i, data, ['SHA256'])
                if op['pick'] % 2:
                    e['sums']['SHA256'] = '0' * 64
                ents.append(e)
            items = list(datas.items())
            if (op['pick'] // 2) % 3 == 0:
                # ... and a second level with a Manifest of its own, referenced by
                # the first one (a chain of not yet referenced Manifests)
                ddata = rng.randbytes(rng.choice([1, 50]))
                de = mtext.file_entry('DATA', 'y0', ddata, ['SHA256'])
                if op['pick'] % 2:
                    de['sums']['SHA256'] = '1' * 64
                dtext = mtext.render([de]).encode()
                ents.append(mtext.file_entry('MANIFEST', 'deep/Manifest', dtext,
                                             ['SHA256']))
                items += [('deep/y0', ddata), ('deep/Manifest', dtext)]
            text = mtext.render(ents)
            for r in (rootA, rootB):
                os.mkdir(os.path.join(r, dn))
                for nm, data in items + [('Manifest', text.encode())]:
                    os.makedirs(os.path.dirname(os.path.join(r, dn, nm)), exist_ok=True)
                    with open(os.path.join(r, dn, nm), 'wb') as f:
                        f.write(data)
                    if mt is not None:
                        utime(os.path.join(r, dn, nm), mt)
            modified = True
            continue
        if not files:
            continue
        rel = files[op['pick'] % len(files)]
        if k == 'delete':
            for r in (rootA, rootB):
                os.unlink(os.path.join(r, rel))
            modified = True
        elif k in ('same', 'other'):
            if when in ('+1ns', '+100ns'):
                _fine_files.add(rel)
            with open(os.path.join(rootA, rel), 'rb') as f:
                old = f.read()
            if k == 'same':
                new = bytes((b + 1) % 256 for b in old) if old else b''
                if not old:
                    continue
            elif old and op['seed'] % 4 == 0:
                new = b''           # truncated to nothing
            else:
                new = old + b'+extra'
            for r in (rootA, rootB):
                with open(os.path.join(r, rel), 'wb') as f:
                    f.write(new)
                if mt is not None:
                    utime(os.path.join(r, rel), mt)
            modified = True
            if k == 'same' and mt is not None and mt <= tprev:
                constrained = False
        else:
            if mt is not None:
                for r in (rootA, rootB):
                    utime(os.path.join(r, rel), mt)
    return final_constrained(rootA, before, tprev), modified


def run_history(ctx, d, case):
    try:
        return _run_history(ctx, d, case)
    finally:
        n = _counts.pop('mid_manifests_dropped', 0)
        if n:
            ctx.count('mid_manifests_dropped', n)


def _run_history(ctx, d, case):
    tz = case['tz']
    rootA, rootB = os.path.join(d, 'A'), os.path.join(d, 'B')
    gtree.materialize(case['tree'], rootA)
    shutil.copytree(rootA, rootB, symlinks=True)
    hashes = ' '.join(case['hashes'])
    old_tz = os.environ.get('TZ', 'UTC')
    try:
        set_tz(tz)
        ctx.count('tz:' + tz)
        if case.get('presub'):
            # sub-directories that already hold a (so far unreferenced) Manifest with
            # a DIST line when the tree is first created: sub-Manifests from the start
            for r in (rootA, rootB):
                n = 0
                # (deepest directories first, so that a directory without a Manifest
                # may lie between the top and a sub-Manifest)
                for dp, dn, fn in sorted(os.walk(r), key=lambda t: (-t[0].count('/'),
                                                                     t[0])):
                    if dp != r and n < 2:
                        with open(os.path.join(dp, 'Manifest'), 'w') as f:
                            f.write('DIST pre-%d.tar 1 MD5 %s\n' % (n, 'ab' * 16))
                        n += 1
        sign_args = []
        if case.get('signed'):
            # a signed tree (as the real repository is): later updates re-sign it
            from vf.checks import c19
            from vf.fixtures import keys
            os.environ['GNUPGHOME'] = c19.sign_home().dir
            sign_args = ['-s', '-k', keys.KEY_ID]
            ctx.count('signed_histories')
        for r in (rootA, rootB):
            rc = cli(['create', '--hashes', hashes, '-t'] + sign_args + [r])
            if rc != 0:
                ctx.count('harness_error')
                ctx.extra.setdefault('harness_errors', []).append('create: %r' % (rc,))
                return
        if case.get('past_ts'):
            # previous TIMESTAMP moved to a fixed date in winter or summer
            for r in (rootA, rootB):
                mp = os.path.join(r, 'Manifest')
                with open(mp) as f:
                    lines = f.read().split('\n')
                lines = ['TIMESTAMP ' + case['past_ts'] if ln.startswith('TIMESTAMP ')
                         else ln for ln in lines]
                with open(mp, 'w') as f:
                    f.write('\n'.join(lines))
                # nothing in the tree may look newer than that by accident
                for dp, dn, fn in os.walk(r):
                    for x in fn:
                        if not x.startswith('Manifest'):
                            os.utime(os.path.join(dp, x), (1500000000, 1500000000))
        if case.get('future_ts'):
            # a Manifest whose TIMESTAMP lies in the future (clock stepped back, or
            # written on a host running ahead)
            fut = time.strftime('%Y-%m-%dT%H:%M:%SZ',
                                time.gmtime(time.time() + case['future_ts']))
            for r in (rootA, rootB):
                mp = os.path.join(r, 'Manifest')
                with open(mp) as f:
                    lines = f.read().split('\n')
                lines = ['TIMESTAMP ' + fut if ln.startswith('TIMESTAMP ') else ln
                         for ln in lines]
                with open(mp, 'w') as f:
                    f.write('\n'.join(lines))
        for rnd, ops in enumerate(case['rounds']):
            tprev = read_ts(rootA)
            if tprev is None:
                ctx.violation('timestamp-missing', 'no TIMESTAMP after create/update -t',
                              case)
                return
            # the previous TIMESTAMP must be in the past for "+1s" etc. to be
            # reachable without touching the future: shift it back on both replicas
            constrained, modified = apply_round(rootA, rootB, ops, tprev)
            t0 = time.time()
            with open(os.path.join(rootA, 'Manifest'), 'rb') as f:
                top_before = f.read()
            targs = ['-t'] if case.get('use_t') else []
            rcA = cli(['update', '--incremental', '--hashes', hashes] + targs + [rootA])
            firstA = _scan['first']
            t1 = time.time()
            rcB = cli(['update', '--hashes', hashes] + targs + [rootB])
            ctx.case(sig=('hist', tz, tuple(sorted({o['kind'] + ':' + o['when']
                                                    for o in ops})), constrained),
                     case=case, nontrivial=modified and constrained, klass='tz-' + tz)
            if rcA != 0 or rcB != 0:
                if (rcA == 0) != (rcB == 0):
                    ctx.violation('incremental-outcome-differs', 'incremental update '
                                  '-> %r, full update -> %r' % (rcA, rcB), case,
                                  {'round': rnd})
                return
            # ---- TIMESTAMP of the incremental run
            tnew = read_ts(rootA)
            ctx.count('timestamps_checked')
            ref = firstA if firstA is not None else t1
            if tnew is None:
                ctx.violation('timestamp-missing', 'TIMESTAMP vanished', case)
                return
            with open(os.path.join(rootA, 'Manifest'), 'rb') as f:
                rewritten = f.read() != top_before
            if not rewritten:
                # nothing was written by this update: the old TIMESTAMP stays
                ctx.count('timestamp_not_rewritten')
            elif tnew > ref + 0.001:
                ctx.violation('timestamp-after-scan-start', 'TIMESTAMP %d is later than '
                              'the moment scanning started (%.3f) under TZ=%s'
                              % (tnew, ref, tz), case, {'round': rnd})
                return
            if rewritten and tnew < t0 - 3:
                ctx.violation('timestamp-not-utc-now', 'TIMESTAMP %d differs from the '
                              'UTC time of the update (%.0f) by %.0f s under TZ=%s'
                              % (tnew, t0, t0 - tnew, tz), case, {'round': rnd})
                return
            if not constrained:
                ctx.unconstrained('same-size change not newer than the TIMESTAMP (U4)')
                return
            ma, pa = manifests_sans_ts(rootA)
            mb, pb = manifests_sans_ts(rootB)
            ctx.count('rounds_compared')
            if ma != mb:
                diff = sorted(k for k in set(ma) | set(mb) if ma.get(k) != mb.get(k))
                la = set(ma.get(diff[0]) or [])
                lb = set(mb.get(diff[0]) or [])
                # known finding: a same-size change whose mtime is later than the
                # TIMESTAMP by less than a float can resolve (only when every differing
                # file entry belongs to such a file)
                changed = set()
                for mk in diff:
                    mdir = os.path.dirname(mk)
                    for ln in set(ma.get(mk) or []) ^ set(mb.get(mk) or []):
                        f = ln.split(' ')
                        if f[0] != 'MANIFEST':
                            changed.add((mdir + '/' if mdir else '') + f[1])
                def within_float_resolution(rel):
                    try:
                        d_ns = os.stat(os.path.join(rootA, rel)).st_mtime_ns \
                            - int(tprev) * 10**9
                    except OSError:
                        return False
                    return 0 < d_ns < 1000
                fine = bool(changed) and all(within_float_resolution(x) for x in changed)
                ctx.violation('incremental-differs-from-full:' + (
                    'mtime-within-float-resolution-of-timestamp' if fine else
                    'west-of-utc' if tz in ('XXX8', 'XXX12') else
                    'east-of-utc' if tz != 'UTC' else 'utc'),
                    'round %d under TZ=%s: Manifest %r differs; only incremental: %r; '
                    'only full: %r' % (rnd, tz, diff[0], sorted(la - lb)[:2],
                                       sorted(lb - la)[:2]), case,
                    {'round': rnd, 'ops': ops, 'tprev': tprev})
                return
    finally:
        set_tz(old_tz)
        os.environ.pop('GNUPGHOME', None)


def run_hist(u, ctx):
    for j in range(u['n']):
        rng = common.rng_for(ctx.seed, ID, 'hist', u['i'], j)
        case = {'kind': 'hist', 'tz': TZS[(u['i'] * PER_UNIT + j) % len(TZS)],
                'tree': gen_tree(rng),
                'future_ts': rng.choice([0, 0, 0, 0, 0, 0, 0, 3600, 86400]),
                'past_ts': rng.choice([None, None, '2026-01-15T12:00:00Z',
                                       '2026-07-15T12:00:00Z']),
                'use_t': rng.random() < 0.3, 'presub': rng.random() < 0.4,
                'hashes': sorted(rng.sample(mtext.supported_hashes(), rng.randint(1, 2))),
                'rounds': [gen_round(rng, rng.randint(1, 5))
                           for _ in range(rng.randint(1, 6 if ctx.tier == 'thorough'
                                                      else 4))]}
        if case['past_ts']:
            case['future_ts'] = 0
        if rng.random() < 0.12:
            case['signed'] = True
            case['past_ts'] = None
            case['future_ts'] = 0
        with common.Scratch('vf-c11-') as d:
            run_history(ctx, d, case)
        if j == 0:
            ctx.sample(case, 'hist')


def run_dedup(u, ctx):
    """Histories shaped so that the mid-Manifest drop of _apply_ops always has an
    object: d0 (no Manifest) lies between the top and the registered d0/d1/Manifest;
    the dropped d0/Manifest lists d0/d1/f0 (or f1) with the right size, the same hash
    names and wrong values, the file itself stays untouched and older than the
    TIMESTAMP, and (mostly) a sibling covered by the same sub-Manifest is modified."""
    for j in range(4):
        rng = common.rng_for(ctx.seed, ID, 'dedup', u['i'], j)
        nodes = [{'p': 'd0', 't': 'd'}, {'p': 'd0/d1', 't': 'd'},
                 {'p': 'd0/d1/d2', 't': 'd'}]
        for p in ('d0/d1/f0', 'd0/d1/f1', 'd0/d1/d2/g0', 'd0/h0', 't0'):
            nodes.append({'p': p, 't': 'f', 'c': {'r': [rng.randrange(1, 1 << 30) * 6 + 1,
                                                        rng.choice([1, 10, 100, 5000])]}})
        which = rng.randrange(2)            # f0 or f1 gets the bogus twin
        ops = [{'kind': 'add-subtree', 'pick': 6 + which, 'seed': rng.randrange(1 << 30),
                'when': rng.choice(['older', '+1s', 'now', '+1h', 'equal'])}]
        if rng.random() < 0.75:
            # files sorted: d0/d1/d2/g0, d0/d1/f0, d0/d1/f1, d0/h0, t0
            ops.append({'kind': rng.choice(['same', 'other']), 'pick': 2 - which,
                        'seed': rng.randrange(1 << 30),
                        'when': rng.choice(['+1s', '+1h', 'now', '+10ms'])})
        if rng.random() < 0.5:
            ops.reverse()
        rounds = [ops]
        if rng.random() < 0.4:
            rounds.append(gen_round(rng, rng.randint(1, 3)))
        case = {'kind': 'hist', 'tz': TZS[(u['i'] * 4 + j) % len(TZS)],
                # (the previous TIMESTAMP is moved to a fixed date and every file made
                # older than it: with the real clock the files of a tree created a
                # moment ago are usually newer than the whole-second TIMESTAMP)
                'tree': {'nodes': nodes}, 'future_ts': 0,
                'past_ts': rng.choice(['2026-01-15T12:00:00Z', '2026-07-15T12:00:00Z']),
                'use_t': rng.random() < 0.3, 'presub': True,
                'hashes': sorted(rng.sample(mtext.supported_hashes(), rng.randint(1, 2))),
                'rounds': rounds}
        ctx.count('dedup_histories')
        with common.Scratch('vf-c11-') as d:
            run_history(ctx, d, case)
        if j == 0:
            ctx.sample(case, 'dedup')


def run_inject_case(ctx, case):
    """Modify file #k right after it was hashed during a running update."""
    tz = case['tz']
    old_tz = os.environ.get('TZ', 'UTC')
    with common.Scratch('vf-c11i-') as d:
        root = os.path.join(d, 'A')
        gtree.materialize(case['tree'], root)
        hashes = ' '.join(case['hashes'])
        try:
            set_tz(tz)
            if case.get('early'):
                # files that have not been touched for a while: an mtime put back
                # to its previous value lies before the TIMESTAMP
                old_t = time.time() - 5000
                for dp, dn, fn in os.walk(root):
                    for f in fn:
                        os.utime(os.path.join(dp, f), (old_t, old_t))
            if cli(['create', '--hashes', hashes, '-t', root]) != 0:
                ctx.count('harness_error')
                return
            # age the tree so that the running update has something to re-hash
            files = list_files(root)
            victim = {}

            def hook(path, n):
                if n == 1 and case.get('slow_t'):
                    time.sleep(1.15)    # the scan crosses a second boundary
                if (n == case['k'] or (case.get('early') and n >= case['k'])) \
                        and os.path.basename(path).startswith('f') and not victim:
                    with open(path, 'rb') as f:
                        old = f.read()
                    if not old:
                        return
                    new = bytes((b + 7) % 256 for b in old)
                    with open(path, 'wb') as f:
                        f.write(new)
                    victim['path'] = path
                    victim['data'] = new
            if case.get('early'):
                # (in the window between reading the content and the end of the
                # metadata generator)
                _scan['hash_hook'] = hook
                _scan['hn'] = 0
                ctx.count('inject_right_after_read')
            else:
                _scan['hook'] = hook
            # make sure the update has something to write
            with open(os.path.join(root, 'touched-by-test'), 'w') as f:
                f.write('new')
            try:
                rc1 = cli(['update', '--hashes', hashes] +
                          (['-t'] if case.get('slow_t') else []) + [root])
                first_scan = _scan['first']
            finally:
                _scan['hook'] = None
                _scan['hash_hook'] = None
            if rc1 == 0 and case.get('slow_t') and first_scan is not None:
                tnew = read_ts(root)
                ctx.count('timestamps_checked')
                if tnew is not None and tnew > first_scan + 0.001:
                    ctx.violation('timestamp-after-scan-start', 'TIMESTAMP %d written by '
                                  '`update -t` is later than the moment scanning '
                                  'started (%.3f)' % (tnew, first_scan), case)
                    return
            ctx.case(sig=('inject', tz, case['k'], bool(victim)), case=case,
                     nontrivial=bool(victim), klass='inject')
            ctx.count('inject_runs')
            if rc1 != 0 or not victim:
                return
            rc2 = cli(['update', '--incremental', '--hashes', hashes, root])
            if rc2 != 0:
                ctx.violation('incremental-fails-after-concurrent-change',
                              'incremental update -> %r' % (rc2,), case)
                return
            rel = os.path.relpath(victim['path'], root)
            findings = update_post.check(root, 'Manifest', '', case['hashes'])
            stale = [f for f in findings if f[1] == rel]
            if stale:
                ctx.violation('concurrent-change-not-picked-up:' + (
                    'west-of-utc' if tz in ('XXX8', 'XXX12') else
                    'east-of-utc' if tz != 'UTC' else 'utc'),
                    'file %r was modified right after being hashed by a running update; '
                    'the next incremental update left it stale (%r) under TZ=%s'
                    % (rel, stale[:2], tz), case)
        finally:
            set_tz(old_tz)


def run_inject(u, ctx):
    rng = common.rng_for(ctx.seed, ID, 'inject', u['i'])
    case = {'kind': 'inject', 'tz': TZS[u['i'] % len(TZS)], 'tree': gen_tree(rng),
            'hashes': ['SHA256'], 'k': rng.randint(1, 4), 'slow_t': u['i'] % 4 == 3,
            'early': u['i'] % 3 == 1}
    run_inject_case(ctx, case)
    ctx.sample(case, 'inject')


def exec_multi(ctx, case):
    """`gemato update --incremental A B ..`: every tree is compared with its OWN
    previous TIMESTAMP, whatever the other trees on the command line carry."""
    import calendar
    tz = case['tz']
    old_tz = os.environ.get('TZ', 'UTC')
    with common.Scratch('vf-c11m-') as d:
        try:
            set_tz(tz)
            trees = []
            base = 1500000000
            # (TIMESTAMPs a day apart; everything in a tree is older than its own)
            stamps = {'A': base + 86400, 'B': base + 3 * 86400, 'C': base + 2 * 86400}
            names = case['order']
            for nm in sorted(set(names)):
                root = os.path.join(d, nm)
                os.makedirs(os.path.join(root, 'sub'))
                for pth, data in (('f1', b'one'), ('sub/f2', b'two'), ('sub/f3', b'333')):
                    with open(os.path.join(root, pth), 'wb') as f:
                        f.write(data + nm.encode())
                    os.utime(os.path.join(root, pth), (base, base))
                if cli(['create', '--hashes', 'SHA256', '-t', root]) != 0:
                    ctx.count('harness_error')
                    return
                mp = os.path.join(root, 'Manifest')
                with open(mp) as f:
                    lines = f.read().split('\n')
                ts = time.strftime('%Y-%m-%dT%H:%M:%SZ', time.gmtime(stamps[nm]))
                lines = ['TIMESTAMP ' + ts if ln.startswith('TIMESTAMP ') else ln
                         for ln in lines]
                with open(mp, 'w') as f:
                    f.write('\n'.join(lines))
                trees.append(root)
            # a same-size change in every tree, half a day after that tree's TIMESTAMP
            changed = {}
            for nm in sorted(set(names)):
                p = os.path.join(d, nm, 'sub', 'f2')
                with open(p, 'rb') as f:
                    old = f.read()
                new = bytes((b + 3) % 256 for b in old)
                with open(p, 'wb') as f:
                    f.write(new)
                mt = stamps[nm] + 43200
                os.utime(p, (mt, mt))
                changed[nm] = 'sub/f2'
            ctx.case(sig=('multi-inc', tz, tuple(names)), case=case, klass='multi-inc')
            ctx.count('multi_tree_incremental_runs')
            rc = cli(['update', '--incremental', '--hashes', 'SHA256'] +
                     [os.path.join(d, nm) for nm in names])
            if rc != 0:
                ctx.violation('incremental-fails:multi-tree', 'update --incremental over '
                              '%r -> %r' % (names, rc), case)
                return
            for nm in sorted(set(names)):
                findings = update_post.check(os.path.join(d, nm), 'Manifest', '',
                                             ['SHA256'])
                stale = [f for f in findings if f[1] == changed[nm]]
                if stale:
                    ctx.violation('incremental-differs-from-full:multi-tree',
                                  '`update --incremental %s`: the file changed in tree %s '
                                  'after its own TIMESTAMP was left stale (%r) under '
                                  'TZ=%s' % (' '.join(names), nm, stale[:2], tz), case)
                    return
        finally:
            set_tz(old_tz)


def run_multi(u, ctx):
    orders = [['A', 'B'], ['B', 'A'], ['A', 'C', 'B'], ['B', 'C', 'A'], ['A', 'A', 'B']]
    case = {'kind': 'multi', 'tz': TZS[u['i'] % len(TZS)],
            'order': orders[u['i'] % len(orders)]}
    exec_multi(ctx, case)
    ctx.sample(case, 'multi')


def run_unit(u, ctx):
    {'hist': run_hist, 'inject': run_inject, 'multi': run_multi,
     'dedup': run_dedup}[u['k']](u, ctx)


def replay(case, ctx):
    if case['kind'] == 'inject':
        run_inject_case(ctx, case)
    elif case['kind'] == 'multi':
        exec_multi(ctx, case)
    else:
        with common.Scratch('vf-c11-') as d:
            run_history(ctx, d, case)
