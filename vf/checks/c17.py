"""C17 - reported digests and sizes are those of the whole file content.

Real hash_file / hash_path / get_file_metadata / `gemato hash` are run on
contents of every length around the buffering thresholds, with every size
hint and with read schedules that deliver arbitrary short chunks (a raw stream
under io.BufferedReader, and a real pipe fed in bursts).  Oracle: one-shot
digests under the algorithm the *Manifest name* denotes (own GLEP-74 table),
itself cross-checked against coreutils / openssl known answers.
"""
import hashlib
import io
import os
import subprocess
import time

from vf import adapt, common
from vf.model import mtext

ID = 'C17'
LEVEL = 'exploration'
RULE = ('cases = (API in {hash_file, hash_path, get_file_metadata, gemato-hash-stdin-'
        'pipe}) x content length class (every length 0..300; 65534..65538; '
        '131070..131074; 1048574..1048578; random <= 5 MiB) x size hint {0, true, '
        'smaller, larger} x read schedule {whole, seeded short chunks, pipe bursts} x '
        'hash-name set (the ten Manifest names, every hashlib name, unknown names). '
        'entry = update_entry_for_path on prior {size right/wrong} x {checksums none/'
        'right/wrong} x requested hash set incl. empty; inplace / fifo histories. '
        'Non-trivial = content length > 0 or an unsupported name; distinct = distinct '
        '(api, length, hint, schedule seed, names) tuples.')
ANCHORS = ['hash:hash_file', 'hash:hash_path', 'hash:get_hash_by_name',
           'verify:get_file_metadata', 'manifest:manifest_hashes_to_hashlib',
           'cli:HashCommand.__call__']
REQUIRED = ['hash:hash_file', 'verify:get_file_metadata', 'kat_checked',
            'short_read_cases', 'pipe_cases', 'unsupported_cases', 'inplace_cases',
            'fifo_cases', 'entry_cases', 'real_file_cases']
ASSUMPTIONS = ['oracle digests: hashlib one-shot, cross-checked on a sample against '
               'coreutils (md5sum sha1sum sha256sum sha512sum b2sum) and openssl dgst',
               'WHIRLPOOL is not provided by this Python/OpenSSL: UnsupportedHash is '
               'the required outcome for it here']

SMALL = list(range(0, 301))
EDGES = [65534, 65535, 65536, 65537, 65538, 131070, 131071, 131072, 131073, 131074,
         1048574, 1048575, 1048576, 1048577, 1048578]


def units(tier, seed):
    u = []
    for lo in range(0, 301, 20):
        u.append({'k': 'len', 'lens': list(range(lo, min(lo + 20, 301)))})
    for n in EDGES:
        u.append({'k': 'len', 'lens': [n]})
    nrand = 24 if tier == 'quick' else 400
    for i in range(nrand):
        u.append({'k': 'rand', 'i': i})
    for i in range(8 if tier == 'quick' else 120):
        u.append({'k': 'pipe', 'i': i})
    for i in range(4 if tier == 'quick' else 40):
        u.append({'k': 'names', 'i': i})
    for i in range(6 if tier == 'quick' else 200):
        u.append({'k': 'inplace', 'i': i})
    for i in range(4 if tier == 'quick' else 60):
        u.append({'k': 'fifo', 'i': i})
    for i in range(3 if tier == 'quick' else 60):
        u.append({'k': 'entry', 'i': i})
    u.append({'k': 'kat'})
    return u


def setup_worker(ctx):
    common.use_repo()


# ------------------------------------------------------------------ helpers

class ShortRaw(io.RawIOBase):
    """Raw stream delivering the data in seeded short chunks."""

    def __init__(self, data, rng, maxchunk):
        self.data = data
        self.pos = 0
        self.rng = rng
        self.maxchunk = maxchunk
        self.delivered = 0
        self.reads = 0

    def readable(self):
        return True

    def readinto(self, b):
        if self.pos >= len(self.data):
            return 0
        n = min(len(b), self.rng.randint(1, self.maxchunk),
                len(self.data) - self.pos)
        b[:n] = self.data[self.pos:self.pos + n]
        self.pos += n
        self.delivered += n
        self.reads += 1
        return n


def model_digests(hashlib_names, data):
    out = {}
    for n in hashlib_names:
        if n == '__size__':
            out[n] = len(data)
        else:
            out[n] = hashlib.new(n, data).hexdigest()
    return out


def fixed_hashlib_names():
    out = []
    for n in sorted(hashlib.algorithms_available):
        try:
            if hashlib.new(n).digest_size:
                out.append(n)
        except Exception:
            pass
    return out


def xof_names():
    return [n for n in sorted(hashlib.algorithms_available)
            if n.startswith('shake')]


def content_for(rng, n):
    r = rng.random()
    if n <= 4096 or r < 0.5:
        return rng.randbytes(n)
    blk = rng.randbytes(257)
    return (blk * (n // 257 + 1))[:n]


def check_result(ctx, api, got, want, case):
    if got != want:
        bad = sorted(k for k in want if got.get(k) != want[k])
        extra = sorted(k for k in got if k not in want)
        ctx.violation('wrong-digest:%s:%s' % (api, 'size' if '__size__' in bad
                                              else 'digest'),
                      '%s returned wrong value for %s (extra keys %s)' % (
                          api, bad, extra), case,
                      {'got': {k: got.get(k) for k in bad},
                       'want': {k: want[k] for k in bad}})
        return False
    return True


def run_hash_file(ctx, data, names, hint, sched_seed, maxchunk, case):
    from gemato import hash as gh
    rng = common.rng_for('sched', sched_seed)
    scratch = None
    if sched_seed == 'file':
        # a real file on disk (descriptor, fstat-able, mmap-able), hint still as given
        scratch = common.Scratch('vf-c17f-')
        d = scratch.__enter__()
        with open(os.path.join(d, 'f'), 'wb') as fh:
            fh.write(data)
        f = open(os.path.join(d, 'f'), 'rb')
        raw = None
        ctx.count('real_file_cases')
        # the caller may have looked at the beginning of the file already: data sits
        # in the reader's buffer while the position is (again) 0
        if len(data) % 3 == 1:
            f.peek(1)
            ctx.count('real_file_prebuffered')
        elif len(data) % 3 == 2:
            f.read(min(3, len(data)))
            f.seek(0)
            ctx.count('real_file_prebuffered')
    elif sched_seed is None:
        f = io.BytesIO(data)
        raw = None
    else:
        raw = ShortRaw(data, rng, maxchunk)
        f = io.BufferedReader(raw, buffer_size=rng.choice([1, 16, 4096, 65536,
                                                           io.DEFAULT_BUFFER_SIZE]))
        ctx.count('short_read_cases')
    try:
        got = gh.hash_file(f, names, _apparent_size=hint)
    except Exception as exc:
        ctx.violation('raises:hash_file:' + adapt.exc_key(exc),
                      'hash_file raised %r on supported names' % (exc,), case)
        return
    finally:
        if scratch is not None:
            f.close()
            scratch.__exit__(None, None, None)
    want = model_digests(names, data)
    check_result(ctx, 'hash_file', got, want, case)
    if raw is not None and '__size__' in got and got['__size__'] != raw.delivered:
        ctx.violation('size-not-bytes-delivered', '__size__ %r != bytes delivered %r'
                      % (got['__size__'], raw.delivered), case)


def hints_for(n):
    hs = {0, n, max(0, n - 1), n + 1, 1, n // 2, 2 * n + 7, 1048575, 1048576,
          1048577}
    return sorted(hs)


def exec_case(case, ctx):
    from gemato import hash as gh, verify as gv
    k = case['kind']
    data = common.content_bytes(case['content'])
    n = len(data)
    if k == 'hash_file':
        ctx.case(sig=('hash_file', min(n, 400), case['hint'] == n, case['hint'] == 0,
                      case['sched'] is None), case=case, nontrivial=n > 0,
                 klass='hash_file')
        run_hash_file(ctx, data, case['names'], case['hint'], case['sched'],
                      case.get('maxchunk', 70000), case)
    elif k == 'path':
        ctx.case(sig=('path', min(n, 400)), case=case, nontrivial=n > 0, klass='path')
        with common.Scratch('vf-c17-') as d:
            p = os.path.join(d, 'f')
            with open(p, 'wb') as f:
                f.write(data)
            hl = [mtext.GLEP_HASHES[m] for m in case['mnames']] + ['__size__']
            try:
                got = gh.hash_path(p, hl)
            except Exception as exc:
                ctx.violation('raises:hash_path:' + adapt.exc_key(exc),
                              'hash_path raised %r' % (exc,), case)
                return
            check_result(ctx, 'hash_path', got, model_digests(hl, data), case)
            # get_file_metadata: Manifest names in, Manifest names out
            try:
                g = gv.get_file_metadata(p, list(case['mnames']))
                vals = list(g)
            except Exception as exc:
                ctx.violation('raises:get_file_metadata:' + adapt.exc_key(exc),
                              'get_file_metadata raised %r' % (exc,), case)
                return
            want = {m: mtext.digest(m, data) for m in case['mnames']}
            want['__size__'] = n
            ok = (len(vals) == 6 and vals[0] is True and vals[3] == n)
            if not ok:
                ctx.violation('metadata-shape', 'get_file_metadata yielded %r'
                              % (vals[:5],), case)
                return
            check_result(ctx, 'get_file_metadata', vals[5], want, case)
            # and through the entry-level API
            e = adapt.to_gemato({'tag': 'DATA', 'path': 'f', 'size': 0, 'sums': {}})
            gv.update_entry_for_path(p, e, hashes=list(case['mnames']))
            w2 = dict(want)
            w2.pop('__size__')
            if e.size != n or e.checksums != w2:
                ctx.violation('wrong-digest:update_entry_for_path',
                              'update_entry_for_path stored wrong size/digests', case,
                              {'size': e.size, 'sums': e.checksums})
            ok2, diff = gv.verify_path(p, e)
            if not ok2:
                ctx.violation('verify-own-entry', 'verify_path rejects the entry just '
                              'computed: %r' % (diff,), case)
    elif k == 'unsupported':
        ctx.case(sig=('unsupported', case['via'], case['name']), case=case,
                 klass='unsupported')
        ctx.count('unsupported_cases')
        from gemato.exceptions import UnsupportedHash
        try:
            # (asked twice: the answer for a name does not depend on whether it was
            # asked for before in this process)
            for attempt in (1, 2, 3):
                try:
                    if case['via'] == 'hash_file':
                        r = gh.hash_file(io.BytesIO(data), [case['name']])
                    elif case['via'] == 'verify_path':
                        # an entry carrying a correct, computable checksum next to
                        # one under a name that cannot be computed here
                        from gemato.manifest import ManifestEntryDATA
                        with common.Scratch('vf-c17-') as d:
                            p = os.path.join(d, 'f')
                            with open(p, 'wb') as f:
                                f.write(data)
                            sums = {'SHA512': hashlib.sha512(data).hexdigest(),
                                    case['name']: 'ab' * 20}
                            if case.get('order'):
                                sums = dict(reversed(list(sums.items())))
                            e = ManifestEntryDATA('f', len(data), sums)
                            r = gv.verify_path(p, e)
                        if r[0] is False and any(case['name'] == d[0] for d in r[1]):
                            return      # reported as a difference under that name
                    else:
                        with common.Scratch('vf-c17-') as d:
                            p = os.path.join(d, 'f')
                            with open(p, 'wb') as f:
                                f.write(data)
                            r = list(gv.get_file_metadata(p, [case['name']]))
                    break
                except UnsupportedHash:
                    if attempt == 3:
                        return
        except Exception as exc:
            ctx.violation('unsupported-not-reported:%s:%s' % (case['via'],
                                                              adapt.exc_key(exc)),
                          'unsupported hash name %r gives %s instead of '
                          'UnsupportedHash' % (case['name'], type(exc).__name__), case)
            return
        ctx.violation('unsupported-accepted:' + case['via'],
                      'unsupported hash name %r silently produced %r'
                      % (case['name'], r), case)
    elif k == 'pipe':
        ctx.case(sig=('pipe', min(n, 400), len(case['bursts'])), case=case,
                 nontrivial=n > 0, klass='pipe')
        ctx.count('pipe_cases')
        run_pipe(ctx, data, case)


def run_pipe(ctx, data, case):
    mnames = sorted(case['mnames'])
    env = dict(os.environ)
    env['PYTHONPATH'] = common.REPO
    # (the order in which -H lists the names must not matter)
    given = list(reversed(mnames)) if len(data) % 2 else mnames
    code = ("import sys; from gemato.cli import main; "
            "sys.exit(main(['gemato','hash','-H',%r,'-']))" % ' '.join(given))
    p = subprocess.Popen([common.PY, '-c', code], stdin=subprocess.PIPE,
                         stdout=subprocess.PIPE, stderr=subprocess.PIPE, env=env)
    pos = 0
    try:
        for b, delay in case['bursts']:
            p.stdin.write(data[pos:pos + b])
            p.stdin.flush()
            pos += b
            if delay:
                time.sleep(delay)
        p.stdin.write(data[pos:])
        p.stdin.close()
        out = p.stdout.read()
        err = p.stderr.read()
        rc = p.wait(timeout=120)
    except Exception as exc:
        p.kill()
        ctx.count('harness_error')
        ctx.extra.setdefault('harness_errors', []).append(repr(exc))
        return
    want = ['STDIN', '-', str(len(data))]
    for m in mnames:
        want += [m, mtext.digest(m, data)]
    got = out.decode('utf8', 'replace').split()
    if rc != 0 or got != want:
        ctx.violation('wrong-digest:gemato-hash-stdin',
                      '`gemato hash -` over a pipe fed in bursts printed wrong '
                      'size/digests (rc=%r)' % rc, case,
                      {'got': got, 'want': want, 'stderr': err.decode('utf8', 'replace')[-500:]})


# -------------------------------------------------------------------- units

def run_len(u, ctx):
    sup = mtext.supported_hashes()
    allh = fixed_hashlib_names()
    for n in u['lens']:
        rng = common.rng_for(ctx.seed, ID, 'len', n)
        content = {'r': [rng.randrange(1 << 30), n]}
        for hint in hints_for(n):
            names = sorted(rng.sample(allh, rng.randint(1, 4))) + ['__size__']
            exec_case({'kind': 'hash_file', 'content': content, 'names': names,
                       'hint': hint, 'sched': None}, ctx)
            if n >= 65534 or n % 50 == 0:
                exec_case({'kind': 'hash_file', 'content': content, 'names': names,
                           'hint': hint, 'sched': 'file'}, ctx)
            exec_case({'kind': 'hash_file', 'content': content, 'names': names,
                       'hint': hint, 'sched': rng.randrange(1 << 30),
                       'maxchunk': rng.choice([1, 7, 100, 4096, 65535, 65536,
                                               70000, 2000000])}, ctx)
        exec_case({'kind': 'path', 'content': content, 'mnames': sup}, ctx)
        if n in (0, 1, 300) or n >= 65534:
            exec_case({'kind': 'hash_file', 'content': content,
                       'names': allh + ['__size__'], 'hint': n, 'sched': None}, ctx)
            ctx.sample({'kind': 'hash_file', 'len': n, 'names': 'all', 'hint': n},
                       'hash_file')


def run_rand(u, ctx):
    rng = common.rng_for(ctx.seed, ID, 'rand', u['i'])
    n = rng.choice([rng.randint(301, 70000), rng.randint(70000, 1200000),
                    rng.randint(1200000, 5 * 1048576)])
    content = {'r': [rng.randrange(1 << 30), n]}
    allh = fixed_hashlib_names()
    for hint in rng.sample(hints_for(n), 4):
        names = sorted(rng.sample(allh, rng.randint(1, 3))) + ['__size__']
        exec_case({'kind': 'hash_file', 'content': content, 'names': names,
                   'hint': hint, 'sched': 'file'}, ctx)
        exec_case({'kind': 'hash_file', 'content': content, 'names': names,
                   'hint': hint, 'sched': rng.randrange(1 << 30),
                   'maxchunk': rng.choice([1000, 65535, 65536, 65537, 300000])}, ctx)
    sup = mtext.supported_hashes()
    case = {'kind': 'path', 'content': content,
            'mnames': sorted(rng.sample(sup, rng.randint(1, len(sup))))}
    exec_case(case, ctx)
    ctx.sample({'kind': 'path', 'len': n, 'mnames': case['mnames']}, 'path')


def run_pipe_unit(u, ctx):
    rng = common.rng_for(ctx.seed, ID, 'pipe', u['i'])
    n = rng.choice([0, 1, 300, 65536, 65537, 200000, 1048577,
                    rng.randint(1, 3000000)])
    content = {'r': [rng.randrange(1 << 30), n]}
    bursts = []
    left = n
    for _ in range(rng.randint(0, 5)):
        if left <= 0:
            break
        b = rng.choice([1, 7, 1000, 4096, 65535, 65536, 65537, left])
        b = min(b, left)
        bursts.append([b, rng.choice([0, 0.01, 0.05, 0.2])])
        left -= b
    sup = mtext.supported_hashes()
    case = {'kind': 'pipe', 'content': content, 'bursts': bursts,
            'mnames': sorted(rng.sample(sup, rng.randint(1, 4)))}
    exec_case(case, ctx)
    ctx.sample({'kind': 'pipe', 'len': n, 'bursts': bursts}, 'pipe')


def run_names(u, ctx):
    rng = common.rng_for(ctx.seed, ID, 'names', u['i'])
    content = {'r': [u['i'], rng.choice([0, 5, 1000])]}
    unsupported_manifest = [m for m in mtext.GLEP_HASHES
                            if m not in mtext.supported_hashes()]
    unknown = ['FOO', 'sha256', 'SHA-256', 'SHA2', 'MD4', 'BLAKE2B_256', 'SHA3',
               '__size', 'md5', 'shake_128', 'SHAKE_128', '']
    for nm in unsupported_manifest + unknown:
        exec_case({'kind': 'unsupported', 'via': 'manifest', 'name': nm,
                   'content': content}, ctx)
    for nm in unsupported_manifest + unknown:
        if nm:
            exec_case({'kind': 'unsupported', 'via': 'verify_path', 'name': nm,
                       'order': u['i'] % 2, 'content': content}, ctx)
    for nm in ['nosuchhash', 'SHA256', 'whirlpool-x', 'MD5', ''] + xof_names():
        if nm in hashlib.algorithms_available and not nm.startswith('shake'):
            continue
        exec_case({'kind': 'unsupported', 'via': 'hash_file', 'name': nm,
                   'content': content}, ctx)


KAT_TOOLS = [('md5', ['md5sum']), ('sha1', ['sha1sum']), ('sha256', ['sha256sum']),
             ('sha512', ['sha512sum']), ('blake2b', ['b2sum']),
             ('sha3_256', ['openssl', 'dgst', '-sha3-256', '-r']),
             ('sha3_512', ['openssl', 'dgst', '-sha3-512', '-r']),
             ('blake2s', ['openssl', 'dgst', '-blake2s256', '-r']),
             ('ripemd160', ['openssl', 'dgst', '-ripemd160', '-r'])]


def run_kat(u, ctx):
    """Cross-check the oracle (hashlib one-shot) against external tools."""
    import shutil
    with common.Scratch('vf-c17-kat-') as d:
        for n in (0, 1, 3, 65536, 65537, 1048577):
            data = common.rng_for('kat', n).randbytes(n)
            p = os.path.join(d, 'k')
            with open(p, 'wb') as f:
                f.write(data)
            for hn, cmd in KAT_TOOLS:
                if not shutil.which(cmd[0]):
                    continue
                r = subprocess.run(cmd + [p], capture_output=True)
                if r.returncode != 0:
                    ctx.notes['kat_tool_unavailable:' + hn] += 1
                    continue
                ext = r.stdout.decode().split()[0].lower()
                if ext != hashlib.new(hn, data).hexdigest():
                    ctx.inconsistent('oracle digest for %s differs from %s' % (hn, cmd[0]))
                ctx.count('kat_checked')


def exec_inplace(ctx, case):
    """History: hash a file, rewrite it in place (same inode, same length, same
    timestamps), hash again: the second result must be that of the new content."""
    from gemato import verify as gv
    rng = common.rng_for('c17-inplace', case['seed'])
    n = case['n']
    a = rng.randbytes(n)
    b = bytes((x + 1) % 256 for x in a)
    mnames = case['mnames']
    ctx.case(sig=('inplace', min(n, 400)), case=case, klass='inplace')
    ctx.count('inplace_cases')
    with common.Scratch('vf-c17i-') as d:
        p = os.path.join(d, 'f')
        with open(p, 'wb') as f:
            f.write(a)
        first = list(gv.get_file_metadata(p, list(mnames)))[5]
        e = adapt.to_gemato({'tag': 'DATA', 'path': 'f', 'size': n,
                             'sums': {m: mtext.digest(m, a) for m in mnames}})
        ok, diff = gv.verify_path(p, e)
        if not ok:
            ctx.violation('verify-own-entry', 'fresh file does not verify: %r' % (diff,),
                          case)
            return
        st = os.stat(p)
        with open(p, 'r+b') as f:
            f.write(b)
        os.utime(p, ns=(st.st_atime_ns, st.st_mtime_ns))
        second = list(gv.get_file_metadata(p, list(mnames)))[5]
        want = {m: mtext.digest(m, b) for m in mnames}
        want['__size__'] = n
        if not check_result(ctx, 'get_file_metadata-after-inplace-rewrite', second, want,
                            case):
            return
        ok, diff = gv.verify_path(p, e)
        if ok:
            ctx.violation('stale-digest-accepted', 'verify_path accepts a file rewritten '
                          'in place against the entry of its OLD content', case)


def exec_entry(ctx, case):
    """What ends up in a Manifest entry: update_entry_for_path() on an entry in any
    prior state (size right / wrong, checksums none / right / wrong / other names)
    for any requested hash set including the empty one must leave the true size and
    exactly the requested digests; verify_path() must agree with the entry."""
    from gemato import verify as gv
    rng = common.rng_for('c17-entry', case['seed'])
    data = rng.randbytes(case['n'])
    req = list(case['hashes'])
    prior = dict(case['prior'])
    ctx.case(sig=('entry', prior['size'], prior['sums'], len(req)), case=case,
             klass='entry')
    ctx.count('entry_cases')
    with common.Scratch('vf-c17e-') as d:
        p = os.path.join(d, 'f')
        with open(p, 'wb') as f:
            f.write(data)
        size0 = len(data) if prior['size'] == 'right' else len(data) + prior['size']
        if size0 < 0:
            size0 = 0
        pn = prior['names']
        if prior['sums'] == 'none':
            sums0 = {}
        elif prior['sums'] == 'right':
            sums0 = {m: mtext.digest(m, data) for m in pn}
        else:
            sums0 = {m: mtext.digest(m, data + b'x') for m in pn}
        e = adapt.to_gemato({'tag': 'DATA', 'path': 'f', 'size': size0, 'sums': sums0})
        try:
            changed = gv.update_entry_for_path(p, e, hashes=list(req))
        except Exception as exc:
            ctx.violation('entry-update-raises:' + adapt.exc_key(exc),
                          'update_entry_for_path raised %r' % (exc,), case)
            return
        want = {m: mtext.digest(m, data) for m in req}
        got = dict(e.checksums)
        if e.size != len(data):
            ctx.violation('entry-size-not-bytes', 'after update_entry_for_path the entry '
                          'says %r bytes, the file has %d (prior entry: size %r, '
                          'checksums %s)' % (e.size, len(data), size0, prior['sums']),
                          case)
            return
        if got != want:
            ctx.violation('entry-digests-wrong', 'after update_entry_for_path(hashes=%r) '
                          'the entry carries %r' % (req, sorted(got)), case,
                          {'got': got, 'want': want})
            return
        should_change = size0 != len(data) or sums0 != want
        if bool(changed) != should_change:
            ctx.violation('entry-changed-flag', 'update_entry_for_path returned %r, the '
                          'entry %s' % (changed, 'changed' if should_change
                                        else 'did not change'), case)
            return
        ok, diff = gv.verify_path(p, e)
        if not ok:
            ctx.violation('entry-does-not-verify', 'the refreshed entry does not verify: '
                          '%r' % (diff,), case)


def run_entry(u, ctx):
    rng = common.rng_for(ctx.seed, ID, 'entry', u['i'])
    sup = mtext.supported_hashes()
    for size in ('right', 1, -1, 15):
        for sums in ('none', 'right', 'wrong'):
            for req in ([], rng.sample(sup, 1), rng.sample(sup, 2)):
                exec_entry(ctx, {'kind': 'entry', 'seed': rng.randrange(1 << 30),
                                 'n': rng.choice([0, 1, 10, 300, 70000]),
                                 'hashes': sorted(req),
                                 'prior': {'size': size, 'sums': sums,
                                           'names': sorted(rng.sample(sup, rng.randint(
                                               1, 2))) if rng.random() < 0.5
                                           else sorted(req) or ['MD5']}})


def run_inplace(u, ctx):
    rng = common.rng_for(ctx.seed, ID, 'inplace', u['i'])
    sup = mtext.supported_hashes()
    exec_inplace(ctx, {'kind': 'inplace', 'seed': rng.randrange(1 << 30),
                       'n': rng.choice([1, 20, 300, 65536, 65537, 1048577]),
                       'mnames': sorted(rng.sample(sup, rng.randint(1, 3)))})


def exec_fifo(ctx, case):
    """`gemato hash -H .. PATH` where PATH is not a plain file: a FIFO fed in
    bursts, or a procfs file (st_size 0): size = bytes read."""
    import threading
    mnames = sorted(case['mnames'])
    ctx.case(sig=('fifo', case['what']), case=case, klass='fifo-' + case['what'])
    ctx.count('fifo_cases')
    env = dict(os.environ, PYTHONPATH=common.REPO)
    with common.Scratch('vf-c17f-') as d:
        if case['what'] == 'proc':
            p = '/proc/version'
            with open(p, 'rb') as f:
                data = f.read()
            writer = None
        else:
            p = os.path.join(d, 'fifo')
            os.mkfifo(p)
            data = common.content_bytes(case['content'])

            def feed():
                with open(p, 'wb') as f:
                    pos = 0
                    for b in case['bursts']:
                        f.write(data[pos:pos + b])
                        f.flush()
                        pos += b
                        time.sleep(0.02)
                    f.write(data[pos:])
            writer = threading.Thread(target=feed, daemon=True)
            writer.start()
        given = list(reversed(mnames)) if len(data) % 2 else mnames
        code = ("import sys; from gemato.cli import main; "
                "sys.exit(main(['gemato','hash','-H',%r,%r]))" % (' '.join(given), p))
        try:
            r = subprocess.run([common.PY, '-c', code], capture_output=True, env=env,
                               timeout=120)
        except subprocess.TimeoutExpired:
            ctx.count('harness_error')
            return
        if writer:
            writer.join(10)
        got = r.stdout.decode('utf8', 'replace').split()
        want = ['DATA', p, str(len(data))]
        for m in mnames:
            want += [m, mtext.digest(m, data)]
        if r.returncode != 0 or got != want:
            ctx.violation('wrong-digest:gemato-hash-path:' + case['what'],
                          '`gemato hash PATH` on a %s printed wrong size/digests (rc=%r)'
                          % (case['what'], r.returncode), case,
                          {'got': got, 'want': want,
                           'stderr': r.stderr.decode('utf8', 'replace')[-300:]})


def run_fifo(u, ctx):
    rng = common.rng_for(ctx.seed, ID, 'fifo', u['i'])
    n = rng.choice([1, 300, 65537, 200001])
    sup = mtext.supported_hashes()
    exec_fifo(ctx, {'kind': 'fifo', 'what': 'proc' if u['i'] % 4 == 3 else 'fifo',
                    'content': {'r': [rng.randrange(1 << 30), n]},
                    'bursts': [rng.choice([1, 1000, 65536]) for _ in range(rng.randint(0, 3))],
                    'mnames': sorted(rng.sample(sup, rng.randint(1, 3)))})


def run_unit(u, ctx):
    {'len': run_len, 'rand': run_rand, 'pipe': run_pipe_unit, 'names': run_names,
     'kat': run_kat, 'inplace': run_inplace, 'fifo': run_fifo,
     'entry': run_entry}[u['k']](u, ctx)


def replay(case, ctx):
    if case['kind'] == 'inplace':
        exec_inplace(ctx, case)
    elif case['kind'] == 'fifo':
        exec_fifo(ctx, case)
    elif case['kind'] == 'entry':
        exec_entry(ctx, case)
    else:
        exec_case(case, ctx)
