"""C20 - the fast generator scripts and the reference implementation agree.

utils/gen_fast_metamanifest.py (whole repositories) and utils/gen_fast_manifest.py
(single package directories) are run as real subprocesses from the tree under
test on generated repositories; their output must verify with `gemato verify`,
cover every file exactly once with correct size/BLAKE2B/SHA512 (independent
reader), be left semantically untouched by `gemato update -p ebuild`, and after
0..5 edits an update must restore a tree that verifies.
"""
import logging
import os
import subprocess

from vf import adapt, common
from vf.checks import c03
from vf.gen import repo as grepo
from vf.gen import tree as gtree
from vf.model import match as mmatch
from vf.model import mtext
from vf.model import update_post

ID = 'C20'
LEVEL = 'exploration'
RULE = ('case = generated repository with the standard layout (portable names, no '
        'ignored directories), with / without pre-existing package Manifests carrying '
        'DIST entries x script {gen_fast_metamanifest on the repository, '
        'gen_fast_manifest on one package directory} x 0..5 edits {change, add, delete} '
        'before `gemato update -p ebuild`. Non-trivial = at least one package; distinct '
        '= hash of the case.')
ANCHORS = ['cli:UpdateCommand.__call__', 'cli:VerifyCommand.__call__',
           'recursiveloader:ManifestRecursiveLoader.save_manifests']
REQUIRED = ['script_runs:meta', 'script_runs:single', 'verified_after_script',
            'regenerations',
            'noop_updates_checked', 'edit_updates_checked', 'incremental_edit_updates']
ASSUMPTIONS = ['the scripts are run with the tree under test first on PYTHONPATH and the '
               'same interpreter', 'the standard directories the meta script hard-codes '
               '(profiles/categories, eclass, licenses, metadata/{dtd,glsa,news,xml-schema,'
               'md5-cache}) exist: without them it exits non-zero (loud, not wrong)', 'names without whitespace or backslashes; distfiles/'
               'local/packages absent when the scripts run']
CALLCOUNT = True
N = {'quick': 150, 'thorough': 3000}
PER_UNIT = 3
H = ['BLAKE2B', 'SHA512']


def units(tier, seed):
    return [{'k': 'gen', 'i': i, 'n': PER_UNIT} for i in range(N[tier] // PER_UNIT)]


def setup_worker(ctx):
    common.use_repo()
    logging.getLogger().setLevel(logging.CRITICAL)


def full_repo(rng):
    tree, cats = grepo.gen_repo(rng, portable=True, with_ignored=False)
    have = {n['p'] for n in tree['nodes']}
    nodes = tree['nodes']

    def ensure_dir(p):
        if p not in have:
            nodes.append({'p': p, 't': 'd'})
            have.add(p)

    def ensure_file(p, text):
        if p not in have:
            nodes.append({'p': p, 't': 'f', 'c': {'t': text}})
            have.add(p)
    for d in ('profiles', 'eclass', 'licenses', 'metadata', 'metadata/dtd',
              'metadata/glsa', 'metadata/news', 'metadata/xml-schema',
              'metadata/md5-cache'):
        ensure_dir(d)
    catdirs = sorted(n['p'] for n in nodes if n['t'] == 'd' and n['p'] in grepo.CATS)
    listed = list(catdirs)
    if rng.random() < 0.25:
        # a category that is still listed and still has a metadata cache directory
        # but no category directory any more
        listed.append('sci-old')
        ensure_dir('metadata/md5-cache/sci-old')
        ensure_file('metadata/md5-cache/sci-old/gone-1.0', 'DEFINED_PHASES=-\n')
    if rng.random() < 0.15:
        listed.append('never-existed')
    nodes[:] = [n for n in nodes if n['p'] != 'profiles/categories']
    nodes.append({'p': 'profiles/categories', 't': 'f',
                  'c': {'t': ''.join(c + '\n' for c in listed)}})
    if rng.random() < 0.25:
        # a package directory whose last ebuild was removed: metadata.xml (and files/)
        # are all that is left
        pkgs = sorted({os.path.dirname(n['p']) for n in nodes
                       if n['p'].endswith('.ebuild')})
        if pkgs:
            bare = rng.choice(pkgs)
            nodes[:] = [n for n in nodes if not (n['p'].endswith('.ebuild')
                                                 and os.path.dirname(n['p']) == bare)]
            if bare + '/metadata.xml' not in have:
                nodes.append({'p': bare + '/metadata.xml', 't': 'f',
                              'c': {'t': '<pkgmetadata/>\n'}})
                have.add(bare + '/metadata.xml')
    ensure_file('eclass/base.eclass', '# eclass\n')
    ensure_file('licenses/GPL-2', 'text\n')
    ensure_file('metadata/dtd/x.dtd', '<!-- -->\n')
    ensure_file('metadata/glsa/glsa-1.xml', '<glsa/>\n')
    ensure_file('metadata/news/readme', 'news\n')
    ensure_file('metadata/xml-schema/s.xsd', '<x/>\n')
    # parents must precede children
    nodes.sort(key=lambda n: (n['p'].count('/'), n['t'] != 'd', n['p']))
    # drop files the scripts are documented to skip outside metadata/ (none generated)
    return {'nodes': nodes}, catdirs


def add_package_manifests(rng, root):
    """Pre-existing package Manifests carrying DIST (and stale file) entries."""
    out = []
    for dp, dn, fn in os.walk(root):
        if any(f.endswith('.ebuild') for f in fn) and rng.random() < 0.6:
            ents = []
            for k in range(rng.randint(1, 3)):
                ents.append({'tag': 'DIST', 'path': 'dist-%d-%d.tar.gz'
                             % (k, rng.randrange(100)), 'size': rng.randrange(10**6),
                             'sums': {'BLAKE2B': '%0128x' % rng.getrandbits(512),
                                      'SHA512': '%0128x' % rng.getrandbits(512)}})
            if rng.random() < 0.5:
                ents.append(mtext.file_entry('EBUILD', 'stale-0.ebuild', b'gone', H))
            with open(os.path.join(dp, 'Manifest'), 'w') as f:
                f.write(mtext.render(ents))
            out.append(os.path.relpath(dp, root))
    return out


def run_script(name, arg, cwd=None):
    env = dict(os.environ, PYTHONPATH=common.REPO, PYTHONDONTWRITEBYTECODE='1')
    r = subprocess.run([common.PY, os.path.join(common.REPO, 'utils', name), arg],
                       capture_output=True, text=True, timeout=300, env=env, cwd=cwd)
    return r.returncode, (r.stdout + r.stderr)[-800:]


def gemato_cli(argv, wseed=None):
    from gemato import cli as gcli
    from vf.mon import walkperm
    try:
        if wseed is not None:
            # (the order in which directories are enumerated is not the tree's)
            with walkperm.WalkPermuter(wseed):
                return gcli.main(['gemato'] + argv)
        return gcli.main(['gemato'] + argv)
    except SystemExit as exc:
        return 'exit:%r' % (exc.code,)
    except Exception as exc:
        return exc


def semantic_state(root, top='Manifest'):
    mans, problems = update_post.reachable_manifests(root, top)
    out = {}
    for mp, ents in mans.items():
        sfx = mtext.suffix_of(mp)
        base = mp[:-len(sfx) - 1] if sfx else mp
        out[base] = sorted(mtext.entry_line(e) for e in ents if e['tag'] != 'TIMESTAMP')
    return out


def apply_edits(root, edits):
    files = []
    for dp, dn, fn in os.walk(root):
        for f in fn:
            if not f.startswith('Manifest') and not f.startswith('timestamp') \
                    and f != 'categories':
                files.append(os.path.relpath(os.path.join(dp, f), root))
    files.sort()
    for ed in edits:
        if not files:
            return
        f = files[ed['pick'] % len(files)]
        if ed['kind'] == 'change':
            with open(os.path.join(root, f), 'ab') as fh:
                fh.write(b'changed')
        elif ed['kind'] == 'same-size':
            # rewritten in place with other content of the same length, half a second
            # after the (whole-second) TIMESTAMP the generator wrote, if it wrote one
            with open(os.path.join(root, f), 'rb') as fh:
                old = fh.read()
            if not old:
                continue
            with open(os.path.join(root, f), 'wb') as fh:
                fh.write(bytes((b + 1) % 256 for b in old))
            ts = top_timestamp(root)
            if ts is not None:
                os.utime(os.path.join(root, f), (ts + 0.5, ts + 0.5))
        elif ed['kind'] == 'delete':
            if os.path.exists(os.path.join(root, f)):
                os.unlink(os.path.join(root, f))
                files.remove(f)
        elif ed['kind'] == 'new-package':
            # a new package next to an existing one, its name extending the other's
            pk = sorted(os.path.relpath(dp, root) for dp, dn, fn in os.walk(root)
                        if any(x.endswith('.ebuild') for x in fn))
            if pk and root_is_repo(root):
                base = pk[ed['pick'] % len(pk)]
                nd = os.path.join(root, base + rng_suffix(ed['pick']))
                if not os.path.exists(nd):
                    os.makedirs(nd)
                    with open(os.path.join(nd, 'new-1.ebuild'), 'w') as fh:
                        fh.write('EAPI=8\n')
                    with open(os.path.join(nd, 'metadata.xml'), 'w') as fh:
                        fh.write('<pkgmetadata/>\n')
        else:
            nf = os.path.join(os.path.dirname(f), 'added-%d.txt' % (ed['pick'] % 1000))
            with open(os.path.join(root, nf), 'w') as fh:
                fh.write('added')


def top_timestamp(root):
    import calendar
    import time
    try:
        with open(os.path.join(root, 'Manifest')) as fh:
            for ln in fh:
                if ln.startswith('TIMESTAMP '):
                    return calendar.timegm(time.strptime(ln.split()[1],
                                                         '%Y-%m-%dT%H:%M:%SZ'))
    except (OSError, ValueError):
        pass
    return None


def root_is_repo(root):
    return os.path.isdir(os.path.join(root, 'profiles'))


def rng_suffix(pick):
    return ['-bin', '2', '-extra', '.new'][pick % 4]


def judge(ctx, root, case):
    mode = case['mode']
    pkgs = sorted(os.path.relpath(dp, root) for dp, dn, fn in os.walk(root)
                  if any(f.endswith('.ebuild') for f in fn))
    ctx.case(sig=('c20', mode, bool(case['pre']), len(case['edits'])), case=case,
             nontrivial=bool(pkgs), klass=mode)
    if mode == 'single':
        if not pkgs:
            return
        sub = pkgs[case['pick'] % len(pkgs)]
        troot = os.path.join(root, sub)
        rc, out = run_script('gen_fast_manifest.py', troot)
    else:
        troot = root
        rc, out = run_script('gen_fast_metamanifest.py', root)
    ctx.count('script_runs:' + mode)
    detail = {'script_output': out}
    if rc != 0:
        ctx.violation('script-fails:' + mode, 'fast generator exited %d: %s'
                      % (rc, out[-300:]), case, detail)
        return
    vr = gemato_cli(['verify', '-P', troot])
    if vr != 0:
        ctx.violation('script-output-does-not-verify:' + mode,
                      '`gemato verify` -> %r on the generated Manifests' % (vr,), case,
                      detail)
        return
    ctx.count('verified_after_script')
    findings = update_post.check(troot, 'Manifest', '', H)
    if findings:
        ctx.violation('script-coverage:' + findings[0][0], 'generated Manifests: %r'
                      % (findings[:3],), case, detail)
        return
    if case.get('regen'):
        # the generator is run again on its own output (regeneration after a change)
        victims = sorted(os.path.relpath(os.path.join(dp, f), troot)
                         for dp, dn, fn in os.walk(troot) for f in fn
                         if not f.startswith('Manifest') and not f.startswith('.')
                         and not f.startswith('timestamp'))
        if victims:
            with open(os.path.join(troot, victims[case['pick'] % len(victims)]),
                      'ab') as fh:
                fh.write(b'changed before regeneration')
        if mode == 'single':
            rc, out = run_script('gen_fast_manifest.py', troot)
        else:
            rc, out = run_script('gen_fast_metamanifest.py', root)
        ctx.count('regenerations')
        detail = {'script_output': out, 'regeneration': True}
        vr = gemato_cli(['verify', '-P', troot]) if rc == 0 else 'script rc %d' % rc
        findings = update_post.check(troot, 'Manifest', '', H) if vr == 0 else []
        if rc != 0 or vr != 0 or findings:
            ctx.violation('regenerated-output-wrong:' + mode, 'second run of the fast '
                          'generator on its own output: script rc %r, verify %r, %r'
                          % (rc, vr, findings[:2]), case, detail)
            return
    # ---- no-op update
    nested_files = mode == 'single' and any(
        os.path.isdir(os.path.join(troot, 'files', x))
        for x in (os.listdir(os.path.join(troot, 'files'))
                  if os.path.isdir(os.path.join(troot, 'files')) else []))
    if not nested_files:
        before = semantic_state(troot)
        ur = gemato_cli(['update', '-p', 'ebuild', troot])
        if ur != 0:
            ctx.violation('noop-update-fails:' + (adapt.exc_key(ur) if isinstance(
                ur, Exception) else str(ur)), '`gemato update -p ebuild` on the '
                'untouched generated tree -> %r' % (ur,), case, detail)
            return
        after = semantic_state(troot)
        ctx.count('noop_updates_checked')
        if before != after:
            diff = sorted(k for k in set(before) | set(after)
                          if before.get(k) != after.get(k))
            ctx.violation('noop-update-changes-entries', 'update on the untouched tree '
                          'changed %r: -%r +%r' % (
                              diff[0], sorted(set(before.get(diff[0], []))
                                              - set(after.get(diff[0], [])))[:2],
                              sorted(set(after.get(diff[0], []))
                                     - set(before.get(diff[0], [])))[:2]), case, detail)
            return
    # ---- edits, then update must restore a verifying tree
    if case['edits'] and not nested_files:
        apply_edits(troot, case['edits'])
        # (without a TIMESTAMP - single package directories - `--incremental` is
        # refused with a message)
        inc = ['--incremental'] if case.get('incremental') \
            and top_timestamp(troot) is not None else []
        if inc:
            ctx.count('incremental_edit_updates')
        ur = gemato_cli(['update', '-p', 'ebuild'] + inc + [troot],
                        wseed=case['pre_seed'])
        if ur != 0:
            ctx.violation('update-after-edits-fails:' + (adapt.exc_key(ur) if isinstance(
                ur, Exception) else str(ur)), '`gemato update -p ebuild` after edits '
                '-> %r' % (ur,), case, detail)
            return
        ctx.count('edit_updates_checked')
        vr = gemato_cli(['verify', '-P', troot])
        res = mmatch.match(troot, 'Manifest', '')
        if vr != 0 or not res.must_accept:
            ctx.violation('tree-does-not-verify-after-update', 'after edits + update: '
                          'verify -> %r, model: %r' % (vr, res.summary()), case, detail)
            return
        findings = update_post.check(troot, 'Manifest', '', H)
        if findings:
            ctx.violation('post-after-edits:' + findings[0][0], repr(findings[:3]), case,
                          detail)


def run_unit(u, ctx):
    for j in range(u['n']):
        rng = common.rng_for(ctx.seed, ID, u['i'], j)
        tree, cats = full_repo(rng)
        case = {'kind': 'c20', 'tree': tree,
                'mode': 'single' if rng.random() < 0.35 else 'meta',
                'pre': rng.random() < 0.5, 'pre_seed': rng.randrange(1 << 30),
                'regen': rng.random() < 0.35,
                'pick': rng.randrange(1 << 20),
                'incremental': rng.random() < 0.5,
                'edits': [{'kind': rng.choice(['change', 'add', 'delete', 'change', 'add',
                                               'delete', 'new-package', 'same-size',
                                               'same-size']),
                           'pick': rng.randrange(1 << 20)}
                          for _ in range(rng.randint(0, 5))]}
        exec_case(ctx, case)
        if j == 0:
            ctx.sample({k: case[k] for k in ('mode', 'pre', 'edits')}, 'c20')


def exec_case(ctx, case):
    with common.Scratch('vf-c20-') as d:
        root = os.path.join(d, 'repo')
        gtree.materialize(case['tree'], root)
        if case['pre']:
            add_package_manifests(common.rng_for('c20pre', case['pre_seed']), root)
        judge(ctx, root, case)


def replay(case, ctx):
    exec_case(ctx, case)
