"""C18 - bad input produces a diagnosed failure, not an internal error.

The generated trees of C01/C03 (with their odd mutation classes), Manifest texts
of C09 planted as top-level Manifests, and ebuild repositories are run through
`gemato verify`, `verify -k`, `update` (whole tree and every sub-directory) and
`create` with every profile, in-process through gemato.cli.main.  Anything
other than a return value in {0, 1}, argparse's SystemExit, or a *genuine*
OSError (re-trying the failing access reproduces the errno) is a violation,
keyed by mechanism: exception type + innermost gemato frame.
"""
import logging
import os
import shutil

from vf import adapt, common
from vf.gen import mtextgen
from vf.gen import mutate as gmutate
from vf.gen import repo as grepo
from vf.gen import scenario
from vf.gen import tree as gtree
from vf.model import mtext

ID = 'C18'
LEVEL = 'exploration'
RULE = ('runs = (generated tree with 0..4 mutations from all classes of C01/C03 incl. odd '
        'ones | C09 grammar / mutation / hand-picked odd Manifest text planted as '
        'top-level Manifest | generated ebuild repository | unreferenced file named '
        'Manifest.{gz,bz2,lzma,xz} with damaged compressed data) x command {verify, verify -k, '
        'verify SUBDIR, update, update SUBDIR for every sub-directory, create -p '
        '{default, ebuild, old-ebuild}}. Non-trivial = the command did not simply return '
        '0; distinct = (input hash, command).')
ANCHORS = ['cli:main', 'cli:VerifyCommand.__call__', 'cli:UpdateCommand.__call__',
           'cli:CreateCommand.__call__']
REQUIRED = ['cli:main', 'strayman:body', 'strayman:truncated',
            'libhist_rounds_completed', 'cmd:verify', 'cmd:verify-k', 'cmd:update', 'cmd:update-sub',
            'cmd:create', 'outcome:rc1', 'outcome:rc0']
ASSUMPTIONS = ['Manifest texts are valid UTF-8 (non-UTF-8 files are outside the '
               'statement)', 'an OSError is genuine if repeating the access on '
               'err.filename reproduces the same errno']

CLASSES = (gmutate.FS_CLASSES + gmutate.MAN_CLASSES + gmutate.ODD_CLASSES * 2
           + gmutate.UNREG_CLASSES)
N = {'quick': 4000, 'thorough': 200000}

ODD_TEXTS = [
    # checksum values that are not hexadecimal / not ASCII, for existing files of
    # the listed size (the comparison itself is reached)
    'DATA a 3 MD5 \uff14\uff17bce5c74f589f4867dbd57e9ca9f808\n',
    'DATA a 3 SHA256 \u2026\n',
    'DATA sub/inner 1 MD5 caf\xe9 SHA1 \u0416\n',
    'MISC sub/f/inner 0 SHA512 \xe9\n',
    'DATA a 3 MD5 47BCE5C74F589F4867DBD57E9CA9F808\n',
    'DATA a 3 MD5 \U0001f600\n',
    'IGNORE a\nIGNORE a\n',
    'DATA a 0 FOO abcd\n',
    'DATA a 0 WHIRLPOOL abcd\n',
    'DATA a\\x00b 0\n',
    'DATA \\uD800 0\n',
    'IGNORE \\x00\n',
    'DATA a 0\nDATA a 1\n',
    'DATA sub 0\n',
    'DATA a/inner 0\n',
    'DATA sub/f/inner 0 MD5 d41d8cd98f00b204e9800998ecf8427e\n',
    'MANIFEST sub/Manifest 0\n',
    'MANIFEST a 3 MD5 47bce5c74f589f4867dbd57e9ca9f808\n',
    'IGNORE sub\nMANIFEST sub/Manifest 0\n',
    'DATA sub/Manifest 0\nMANIFEST sub/Manifest 0\n',
    'TIMESTAMP 2017-01-01T00:00:00Z\nTIMESTAMP 2018-01-01T00:00:00Z\n',
    'DIST a 0\nDIST a 1\n',
    'AUX x 0\n',
    'AUX ../a 3\n',
    'DATA ../outside 0\n',
    'DATA a//b 0\nDATA ./a 3\n',
    'DATA a/ 3\n',
    'EBUILD a 3\nMISC a 3\n',
    'DATA ' + 'x' * 300 + ' 0\n',
    'DATA a 99999999999999999999999999999999999999999 MD5 00\n',
    'MANIFEST Manifest 0\n',
    'MANIFEST ../Manifest 0\n',
    'IGNORE .\n', 'IGNORE ..\n', 'IGNORE a/\n', 'DATA . 0\n',
    'IGNORE .hid\n', 'DATA .hid 0\n', 'IGNORE sub/.git\nDATA a 3 MD5 47bce5c74f589f4867dbd57e9ca9f808\n',
    'DATA .hid/den 0\n', 'IGNORE .hid/den\n',
    # checksum names that collide with names used internally
    'DATA a 3 __size__ 3\n', 'DATA a 3 __exists__ True\n', 'DATA a 3 __type__ regular\n',
    'DATA a 3 __mtime__ 0\n', 'DATA sub/inner 1 __size__ 1 MD5 00\n',
    'DATA a 3 {} 0\n', 'DATA a 3 SHA{512\n', 'DATA a \u00b2\n', 'DATA a ' + '9' * 5000 + '\n',
]


def units(tier, seed):
    n = N[tier]
    u = []
    for i in range(n // 80):
        u.append({'k': 'tree', 'i': i, 'n': 4})
    for i in range(n // 100):
        u.append({'k': 'text', 'i': i, 'n': 12})
    for i in range(max(2, n // 400)):
        u.append({'k': 'repo', 'i': i, 'n': 3})
    u.append({'k': 'odd'})
    for fmt in ('gz', 'bz2', 'lzma', 'xz', 'plain'):
        u.append({'k': 'strayman', 'fmt': fmt})
    for i in range(n // 100):
        u.append({'k': 'libhist', 'i': i, 'n': 8})
    return u


def setup_worker(ctx):
    common.use_repo()
    logging.getLogger().setLevel(logging.CRITICAL)


def genuine(err):
    """Does repeating the failing access reproduce the OSError?"""
    fn = getattr(err, 'filename', None)
    if fn is None or err.errno is None:
        return False
    for probe in (lambda: os.stat(fn), lambda: os.close(os.open(fn, os.O_RDONLY
                                                                   | os.O_NONBLOCK)),
                  lambda: os.listdir(fn)):
        try:
            probe()
        except OSError as e2:
            if e2.errno == err.errno:
                return True
        except Exception:
            pass
    return False


def run_cmd(ctx, argv, cmdname, case, root):
    from gemato import cli as gcli
    from gemato.exceptions import GematoException
    ctx.count('cmd:' + cmdname)
    old = os.getcwd()
    try:
        rc = gcli.main(['gemato'] + argv)
        outcome = 'rc%s' % rc if rc in (0, 1) else 'rc-other'
        if rc not in (0, 1):
            ctx.violation('exit-status:%r' % (rc,), '%s returned %r' % (cmdname, rc),
                          dict(case, argv=argv[:-1]))
    except SystemExit as exc:
        outcome = 'argparse-exit'
    except OSError as exc:
        if genuine(exc):
            outcome = 'genuine-oserror'
        else:
            outcome = 'violation'
            ctx.violation('spurious-oserror:' + adapt.exc_key(exc),
                          '%s let %r escape and the access cannot be reproduced as '
                          'failing' % (cmdname, exc), dict(case, cmd=cmdname,
                                                           argv=rel_argv(argv, root)))
    except GematoException as exc:
        outcome = 'violation'
        ctx.violation('library-exception-escapes-cli:' + type(exc).__name__,
                      '%s let the library exception %r escape main()' % (cmdname, exc),
                      dict(case, cmd=cmdname, argv=rel_argv(argv, root)))
    except Exception as exc:
        outcome = 'violation'
        ctx.violation('internal-error:' + adapt.exc_key(exc),
                      '%s died with %r' % (cmdname, exc),
                      dict(case, cmd=cmdname, argv=rel_argv(argv, root)))
    finally:
        os.chdir(old)
    ctx.count('outcome:' + outcome)
    return outcome


def rel_argv(argv, root):
    return [a.replace(root, '<root>') for a in argv]


def subdirs(root):
    out = []
    for dp, dn, fn in os.walk(root):
        dn[:] = [d for d in dn if not os.path.islink(os.path.join(dp, d))]
        for d in dn:
            out.append(os.path.relpath(os.path.join(dp, d), root))
    return sorted(out)


def battery(ctx, make_tree, case, klass):
    """Run the command battery; every mutating command gets a fresh copy."""
    outcomes = []
    with common.Scratch('vf-c18-') as d:
        base = os.path.join(d, 'base')
        make_tree(base)
        subs = subdirs(base)
        cmds = [('verify', ['verify', '-P', '{r}']),
                ('verify-k', ['verify', '-P', '-k', '{r}']),
                ('update', ['update', '--hashes', 'SHA256 MD5', '{r}']),
                ('update', ['update', '--hashes', 'BLAKE2B', '-c', '100', '-f', '{r}'])]
        for s in subs[:6]:
            cmds.append(('verify-sub', ['verify', '-P', '-k', '{r}/' + s]))
            cmds.append(('update-sub', ['update', '--hashes', 'SHA1', '{r}/' + s]))
        for prof in ('default', 'ebuild', 'old-ebuild'):
            cmds.append(('update-profile', ['update', '-p', prof, '--hashes', 'SHA512',
                                            '{r}']))
        for k, (name, argv) in enumerate(cmds):
            if name.startswith('update'):
                root = os.path.join(d, 'w%d' % k)
                common.copy_tree(base, root)
            else:
                root = base
            a = [x.replace('{r}', root) for x in argv]
            outcomes.append(run_cmd(ctx, a, name, case, root))
            if root != base:
                common.rmtree(root)
        for prof in ('default', 'ebuild', 'old-ebuild'):
            root = os.path.join(d, 'c-' + prof)
            common.copy_tree(base, root)
            for dp, dn, fn in os.walk(root):
                for f in fn:
                    if f == 'Manifest' or (f.startswith('Manifest.') and
                                           mtext.suffix_of(f)):
                        if case.get('keep_sub_manifests') and dp != root:
                            continue
                        os.unlink(os.path.join(dp, f))
            outcomes.append(run_cmd(ctx, ['create', '-p', prof, '--hashes', 'SHA256',
                                          root], 'create', case, root))
            common.rmtree(root)
    nontrivial = any(o != 'rc0' for o in outcomes)
    ctx.case(sig=(klass, tuple(sorted(set(outcomes)))), case=case, nontrivial=nontrivial,
             klass=klass)


def run_tree(u, ctx):
    for j in range(u['n']):
        rng = common.rng_for(ctx.seed, ID, 'tree', u['i'], j)
        holder = {}

        def make(base):
            nmut = rng.choice([0, 1, 2, 3, 4])
            case, layout, info = scenario.build(
                rng, base, CLASSES, nmut, {'p_split': 0.15,
                                           'specials': rng.random() < 0.3})
            holder['case'] = case
        try:
            with common.Scratch('vf-c18g-') as gd:
                make(os.path.join(gd, 'g'))
        except RuntimeError:
            ctx.discarded('generator')
            continue
        case = dict(holder['case'], kind='tree',
                    keep_sub_manifests=rng.random() < 0.3)
        exec_tree(ctx, case)
        if j == 0:
            ctx.sample({'mutations': case['mutations']}, 'tree')


def exec_tree(ctx, case):
    battery(ctx, lambda base: scenario.rebuild(base, case), case, 'tree')


def plant(base, text):
    os.makedirs(os.path.join(base, 'sub', 'f'), exist_ok=True)
    os.makedirs(os.path.join(base, '.hid', 'den'), exist_ok=True)
    os.makedirs(os.path.join(base, 'sub', '.git'), exist_ok=True)
    with open(os.path.join(base, 'a'), 'w') as f:
        f.write('aaa')
    with open(os.path.join(base, 'sub', 'inner'), 'w') as f:
        f.write('i')
    with open(os.path.join(base, 'sub', 'f', 'inner'), 'w') as f:
        f.write('')
    with open(os.path.join(base, 'Manifest'), 'w', encoding='utf8',
              errors='surrogatepass') as f:
        f.write(text)


def exec_text(ctx, case):
    try:
        case['text'].encode('utf8')
    except UnicodeEncodeError:
        ctx.discarded('text not UTF-8 encodable')
        return
    battery(ctx, lambda base: plant(base, case['text']), case, 'text')


def run_text(u, ctx):
    for j in range(u['n']):
        rng = common.rng_for(ctx.seed, ID, 'text', u['i'], j)
        r = rng.random()
        if r < 0.45:
            text = mtextgen.grammar_text(rng)
        elif r < 0.8:
            base = mtext.render(mtextgen.rand_entries(rng, maxn=5, hostile=0.4) or
                                [mtextgen.rand_entry(rng)])
            text = mtextgen.mutate_text(rng, base)
            if text is None:
                ctx.discarded('mutant not utf-8')
                continue
        else:
            # entries that name the planted objects in odd ways
            lines = []
            for _ in range(rng.randint(1, 4)):
                lines.append(rng.choice([
                    'DATA a 3 MD5 47bce5c74f589f4867dbd57e9ca9f808', 'DATA sub 0',
                    'DATA sub/inner 1', 'IGNORE sub', 'IGNORE a', 'DATA a/x 0',
                    'MANIFEST sub/Manifest 0', 'DATA sub/f 0', 'IGNORE sub/f',
                    'DATA a 3 FOO 00', 'DIST a 3', 'AUX inner 1', 'EBUILD a 3',
                    'DATA \\x61 3', 'IGNORE a', 'DATA missing 0', 'MISC a 3',
                    'TIMESTAMP 2020-01-01T00:00:00Z', 'DATA sub/f/inner 0',
                    'IGNORE .hid', 'IGNORE sub/.git', 'DATA .hid 0']))
            text = '\n'.join(lines) + '\n'
        case = {'kind': 'text', 'text': text}
        exec_text(ctx, case)
        if j == 0:
            ctx.sample(case, 'text')


def run_odd(u, ctx):
    for t in ODD_TEXTS:
        exec_text(ctx, {'kind': 'text', 'text': t})


def exec_repo(ctx, case):
    def make(base):
        gtree.materialize(case['tree'], base)
        for p, text in case.get('extra', []):
            os.makedirs(os.path.dirname(os.path.join(base, p)), exist_ok=True)
            with open(os.path.join(base, p), 'w') as f:
                f.write(text)
    battery(ctx, make, case, 'repo')


def run_repo(u, ctx):
    for j in range(u['n']):
        rng = common.rng_for(ctx.seed, ID, 'repo', u['i'], j)
        tree, cats = grepo.gen_repo(rng, portable=rng.random() < 0.5, odd=True)
        extra = []
        if rng.random() < 0.5:
            # a prior top-level Manifest that already lists things the profile
            # will want to IGNORE or to move into sub-Manifests
            extra.append(('Manifest', rng.choice([
                'DATA metadata/timestamp 0\n', 'IGNORE metadata\n',
                'DATA header.txt 0\nIGNORE profiles\n', 'DATA eclass/e0.eclass 3\n',
                'MANIFEST metadata/Manifest 0\n'])))
        if rng.random() < 0.3:
            extra.append(('profiles/arch/files/foo', 'x'))
        fdirs = sorted(n['p'] for n in tree['nodes'] if n['t'] == 'd'
                       and n['p'].endswith('/files') and n['p'].count('/') == 2)
        if fdirs and rng.random() < 0.4:
            # a (valid, so far unreferenced) Manifest inside a files/ directory
            fd = rng.choice(fdirs)
            extra.append((fd + '/Manifest', rng.choice(['', 'IGNORE nothing\n',
                                                        'DIST x.tar 1\n'])))
        case = {'kind': 'repo', 'tree': tree, 'extra': extra,
                'keep_sub_manifests': True}
        exec_repo(ctx, case)
        if j == 0:
            ctx.sample({'extra': extra}, 'repo')


def exec_libhist(ctx, case):
    """The library kept alive across several rounds on one loader object: update,
    save (with re-compression settings that change from round to round), lookups
    and a verification, with edits in between."""
    from gemato.exceptions import GematoException
    from gemato.recursiveloader import ManifestRecursiveLoader
    from vf.checks import c03
    with common.Scratch('vf-c18l-') as d:
        root = os.path.join(d, 't')
        scenario.rebuild(root, case)
        ctx.case(sig=('libhist', len(case['rounds'])), case=case, klass='libhist')
        m = None
        for rnd, r in enumerate(case['rounds']):
            for ed in r['edits']:
                c03.apply_edit(root, ed)
            try:
                if m is None or r.get('fresh'):
                    m = ManifestRecursiveLoader(os.path.join(root, 'Manifest'),
                                                verify_openpgp=False,
                                                hashes=['SHA256'], allow_create=True)
                m.update_entries_for_directory(r['scope'] if os.path.isdir(
                    os.path.join(root, r['scope'])) else '')
                m.save_manifests(force=r['force'], compress_watermark=r['watermark'],
                                 compress_format=r['format'], sort=r['sort'])
                ctx.count('libhist_rounds_completed')
                m.find_path_entry('no/such/file')
                m.find_dist_entry('no-such-dist')
                m.assert_directory_verifies('', fail_handler=lambda e: True)
            except GematoException:
                ctx.count('libhist_round_raised_library_exception')
                return
            except OSError as exc:
                if genuine(exc):
                    ctx.count('libhist_round_raised_oserror')
                    return
                ctx.violation('spurious-oserror:' + adapt.exc_key(exc), 'library history '
                              'round %d raised %r' % (rnd, exc), case, {'round': rnd})
                return
            except Exception as exc:
                ctx.violation('internal-error:' + adapt.exc_key(exc), 'library history '
                              '(one loader, round %d) died with %r' % (rnd, exc), case,
                              {'round': rnd})
                return


def run_libhist(u, ctx):
    from vf.checks import c03
    for j in range(u['n']):
        rng = common.rng_for(ctx.seed, ID, 'libhist', u['i'], j)
        try:
            with common.Scratch('vf-c18g-') as gd:
                case, layout, info = scenario.build(
                    rng, os.path.join(gd, 'g'), CLASSES, rng.choice([0, 0, 1, 2]),
                    {'p_split': 0.15, 'specials': False})
        except RuntimeError:
            ctx.discarded('generator')
            continue
        case['kind'] = 'libhist'
        case['rounds'] = [{'edits': c03.gen_edits(rng, None, rng.randint(0, 3)) if k else [],
                           'scope': '', 'force': rng.random() < 0.4,
                           'sort': rng.random() < 0.5, 'fresh': rng.random() < 0.1,
                           'watermark': rng.choice([None, 0, 0, 100, 10**6]),
                           'format': rng.choice(['gz', 'bz2', 'lzma', 'xz'])}
                          for k in range(rng.randint(2, 4))]
        exec_libhist(ctx, case)
        if j == 0:
            ctx.sample({'mutations': case['mutations'], 'rounds': case['rounds']},
                       'libhist')


def damaged_variants(fmt):
    """Deterministic list of (how, bytes): a compressed Manifest damaged in several
    ways (each decompressor fails differently: bad magic, truncated stream, damaged
    body, damaged check sum / trailer)."""
    good = mtext.compress(fmt, b'DATA inner 1\n' * 40)
    n = len(good)
    out = [('garbage', b'certainly not compressed data \x00\x01\x02'), ('empty', b'')]
    for frac in (0.1, 0.5, 0.9):
        k = max(1, int(n * frac))
        out.append(('truncated@%d%%' % int(frac * 100), good[:k]))
        k = min(max(10, int(n * frac)), n - 1)
        out.append(('body@%d%%' % int(frac * 100),
                    good[:k] + b'\xff' * min(10, n - k) + good[k + 10:]))
    out.append(('tail', good[:-4] + bytes(b ^ 0x5a for b in good[-4:])))
    out.append(('trailing-junk', good + b'junk after the stream'))
    # ... and intact ones: a valid Manifest nobody references yet
    out.append(('valid', good))
    out.append(('valid-empty', mtext.compress(fmt, b'')))
    out.append(('valid-ignore-only', mtext.compress(fmt, b'IGNORE nothing-here\n')))
    return out


def exec_strayman(ctx, case):
    def make(base):
        plant(base, case.get('top', ''))
        name = 'Manifest' if case['fmt'] == 'plain' else 'Manifest.' + case['fmt']
        with open(os.path.join(base, case['where'], name), 'wb') as f:
            f.write(bytes.fromhex(case['raw']))
    battery(ctx, make, case, 'strayman')


def run_strayman(u, ctx):
    """A file that merely has a compressed-Manifest name (not referenced by any
    Manifest) holding damaged compressed data, in a sub-directory."""
    if u['fmt'] == 'plain':
        # a file that merely is called Manifest, in a directory where nothing
        # references it (and where a profile may want to create one)
        variants = [('binary', b'\xff\xfe\x00binary \x80\x81'),
                    ('latin1', 'DATA caf\xe9 0\n'.encode('latin-1')),
                    ('not-a-manifest', b'this is not a Manifest\n'),
                    ('valid-empty', b''), ('valid', b'DATA inner 1\n')]
        wheres = ('sub', 'sub/f')
    else:
        variants = damaged_variants(u['fmt'])
        wheres = ('sub', 'sub/f', '')
    name = 'Manifest' if u['fmt'] == 'plain' else 'Manifest.' + u['fmt']
    for how, raw in variants:
        for where in wheres:
            ctx.count('strayman:' + how.split('@')[0])
            exec_strayman(ctx, {'kind': 'strayman', 'fmt': u['fmt'], 'how': how,
                                'where': where, 'raw': raw.hex(),
                                'keep_sub_manifests': True})
            if not where:
                continue
            # ... and the same file known to the tree as something that is not a
            # Manifest: ignored, or listed as plain data
            for tag in ('IGNORE', 'DATA', 'MISC'):
                line = '%s %s/%s%s\n' % (tag, where, name,
                                         '' if tag == 'IGNORE' else ' %d' % len(raw))
                ctx.count('strayman_listed:' + tag)
                exec_strayman(ctx, {'kind': 'strayman', 'fmt': u['fmt'],
                                    'how': how + '+' + tag, 'where': where,
                                    'raw': raw.hex(), 'top': line,
                                    'keep_sub_manifests': True})


def run_unit(u, ctx):
    {'tree': run_tree, 'text': run_text, 'repo': run_repo, 'odd': run_odd,
     'strayman': run_strayman, 'libhist': run_libhist}[u['k']](u, ctx)


def replay(case, ctx):
    case = {k: v for k, v in case.items() if k not in ('cmd', 'argv')}
    {'tree': exec_tree, 'text': exec_text, 'repo': exec_repo,
     'strayman': exec_strayman, 'libhist': exec_libhist}[case['kind']](ctx, case)
