"""C05 - a signature is accepted only if good, valid, trusted, unexpired, unrevoked.

fake  bounded-exhaustive sequences of gpg status lines x exit status through the
      real verify_file / ManifestFile.load with subprocess.Popen replaced inside
      gemato.openpgp (FakeGPG); oracle = independent acceptance predicate.
keys  real gpg: key states x owner-trust levels (trust-model direct), monotonicity.
mut   real gpg: every single-character substitution in the signed body.
iso   `gemato verify -K` with hostile contents of the user's own GNUPGHOME;
      SpawnAudit (audit hook) + before/after snapshot of the user's home.
cli   -s / -P / -K matrix.
"""
import io
import itertools
import logging
import os
import sys

from vf import adapt, common
from vf.fixtures import keys
from vf.model import mtext
from vf.mon import gpgenv

ID = 'C05'
LEVEL = 'exploration'
RULE = ('fake: every sequence of 0..L status lines over a 20-token vocabulary of real '
        'gpg status lines x exit status {0,1,2} (exhaustive, distinct by '
        'construction; non-trivial = contains a signature-result line); keys: key '
        'state x owner trust 2..6; mut: every position of the signed body x 3 '
        'replacement characters; iso: user-GNUPGHOME content x key file content; '
        'cli: flag matrix x Manifest kind. Distinct = distinct tuples.')
ANCHORS = ['openpgp:SystemGPGEnvironment.verify_file',
           'openpgp:SystemGPGEnvironment._spawn_gpg',
           'openpgp:IsolatedGPGEnvironment._spawn_gpg',
           'openpgp:IsolatedGPGEnvironment.import_key',
           'manifest:ManifestFile.load', 'cli:VerifyCommand.__call__']
REQUIRED = ['openpgp:SystemGPGEnvironment.verify_file', 'fake:accepted',
            'fake:rejected', 'keys:accepted', 'keys:rejected', 'mut:rejected',
            'iso:runs', 'spawn_audit_events', 'cli:runs', 'fake:abnormal-backend-end']
ASSUMPTIONS = ['GnuPG 2.2 status vocabulary; key refresh is exercised only against a '
               'key server on localhost (keyserver mode, no WKD), CLI runs use -R; the '
               'PGPy backend is not installed',
               'reports describing several signatures: only the necessity of the '
               'acceptance predicate is enforced (U7)']

LMAX = {'quick': 4, 'thorough': 5}
FPR = keys.KEY_FINGERPRINT
KID = FPR[-16:]

VOCAB = [
    ('NEWSIG', '[GNUPG:] NEWSIG'),
    ('GOODSIG', '[GNUPG:] GOODSIG %s gemato test key <gemato@example.com>' % KID),
    ('BADSIG', '[GNUPG:] BADSIG %s gemato test key <gemato@example.com>' % KID),
    ('ERRSIG', '[GNUPG:] ERRSIG %s 1 8 01 1510131686 9 %s' % (KID, FPR)),
    ('EXPSIG', '[GNUPG:] EXPSIG %s gemato test key <gemato@example.com>' % KID),
    ('EXPKEYSIG', '[GNUPG:] EXPKEYSIG %s gemato test key <gemato@example.com>' % KID),
    ('REVKEYSIG', '[GNUPG:] REVKEYSIG %s gemato test key <gemato@example.com>' % KID),
    ('VALIDSIG', '[GNUPG:] VALIDSIG %s 2017-11-08 1510131686 0 4 0 1 8 01 %s'
     % (FPR, FPR)),
    ('TRUST_UNDEFINED', '[GNUPG:] TRUST_UNDEFINED 0 pgp'),
    ('TRUST_NEVER', '[GNUPG:] TRUST_NEVER 0 pgp'),
    ('TRUST_MARGINAL', '[GNUPG:] TRUST_MARGINAL 0 pgp'),
    ('TRUST_FULLY', '[GNUPG:] TRUST_FULLY 0 pgp'),
    ('TRUST_ULTIMATE', '[GNUPG:] TRUST_ULTIMATE 0 pgp'),
    ('KEYEXPIRED', '[GNUPG:] KEYEXPIRED 1510131686'),
    ('KEY_CONSIDERED', '[GNUPG:] KEY_CONSIDERED %s 0' % FPR),
    ('SIG_ID', '[GNUPG:] SIG_ID abcdefghijklmnopqrstuvwxyz0 2017-11-08 1510131686'),
    ('NO_PUBKEY', '[GNUPG:] NO_PUBKEY %s' % KID),
    ('NODATA', '[GNUPG:] NODATA 4'),
    ('noise', 'gpg: Signature made Wed Nov  8 09:01:26 2017 UTC'),
    # a good signature by a key whose (legal, UTF-8) user id contains line-break
    # like characters followed by text that looks like a status line; gpg prints
    # user ids unescaped
    ('GOODSIG*', '[GNUPG:] GOODSIG %s Eve\u2028[GNUPG:] TRUST_ULTIMATE 0 direct\x85'
     '[GNUPG:] TRUST_FULLY 0 pgp\u2029 <eve@example.com>' % KID),
]
NAMES = [n for n, _ in VOCAB]
LINE = dict(VOCAB)
RESULT = {'GOODSIG', 'BADSIG', 'ERRSIG', 'EXPSIG', 'EXPKEYSIG', 'REVKEYSIG'}
GOOD_TRUST = {'TRUST_MARGINAL', 'TRUST_FULLY', 'TRUST_ULTIMATE'}
TRUSTS = {'TRUST_UNDEFINED', 'TRUST_NEVER'} | GOOD_TRUST

SIGNED_TEXT = ('-----BEGIN PGP SIGNED MESSAGE-----\nHash: SHA256\n\nDATA a 0\n'
               '-----BEGIN PGP SIGNATURE-----\n\niQEzBAEB\n=abcd\n'
               '-----END PGP SIGNATURE-----\n')


def EXHAUSTIVE(tier):
    return ('all status-line sequences of length 0..%d over %d tokens x exit status '
            '{0,1,2} (fake unit)' % (LMAX[tier], len(VOCAB)))


def units(tier, seed):
    u = []
    L = LMAX[tier]
    u.append({'k': 'fake', 'exact': []})
    for a in range(len(NAMES)):
        u.append({'k': 'fake', 'exact': [a]})
        for b in range(len(NAMES)):
            if tier == 'quick':
                u.append({'k': 'fake', 'prefix': [a, b], 'L': L})
            else:
                u.append({'k': 'fake', 'exact': [a, b]})
                for c in range(len(NAMES)):
                    u.append({'k': 'fake', 'prefix': [a, b, c], 'L': L})
    for st in KEY_STATES:
        u.append({'k': 'keys', 'state': st})
    for i in range(2 if tier == 'quick' else 24):
        u.append({'k': 'mut', 'i': i})
    for i in range(2 * 3 * len(KEYFILES)):
        u.append({'k': 'iso', 'i': i})
    for i in range(2 if tier == 'quick' else 12):
        u.append({'k': 'cli', 'i': i})
    for i in range(4 if tier == 'quick' else 24):
        u.append({'k': 'refresh', 'i': i})
    return u


# ------------------------------------------------------------------ monitors

class FakePopen:
    script = (0, b'', b'')
    spawned = 0

    def __init__(self, argv, **kw):
        FakePopen.spawned += 1
        self.argv = argv
        self.rc, self.out, self.err = FakePopen.script
        self.returncode = None
        if self.rc == 'ENOENT':
            # the OpenPGP program is not installed
            raise FileNotFoundError(2, 'No such file or directory', argv[0])

    def communicate(self, data=None):
        self.returncode = self.rc       # (negative: terminated by that signal)
        return self.out, self.err

    def wait(self, timeout=None):
        self.returncode = self.rc
        return self.rc

    def poll(self):
        self.returncode = self.rc
        return self.rc


class FakeSubprocess:
    PIPE = -1
    DEVNULL = -3
    Popen = FakePopen


_spawns = []


def audit(event, args):
    if event == 'subprocess.Popen':
        exe, argv, cwd, env = args
        _spawns.append((exe, list(argv) if argv else [], dict(env) if env else None))


_audit_installed = False


def setup_worker(ctx):
    global _audit_installed
    common.use_repo()
    logging.getLogger().setLevel(logging.CRITICAL)
    if not _audit_installed:
        sys.addaudithook(audit)
        _audit_installed = True


# ------------------------------------------------------------------ fake unit

def predicate(seq, rc):
    """-> (may_accept, must_accept, expected exception names or None)"""
    seq = tuple('GOODSIG' if x == 'GOODSIG*' else x for x in seq)
    s = set(seq)
    nec = (rc == 0 and 'GOODSIG' in s and 'VALIDSIG' in s and (s & GOOD_TRUST)
           and 'EXPKEYSIG' not in s and 'REVKEYSIG' not in s)
    single = (sum(1 for x in seq if x in RESULT) <= 1
              and seq.count('VALIDSIG') <= 1 and seq.count('NEWSIG') <= 1
              and sum(1 for x in seq if x in TRUSTS) <= 1)
    must = bool(nec and single)
    exc = None
    if rc == 'ENOENT':
        exc = {'OpenPGPNoImplementation'}
    elif rc != 0:
        # non-zero exit: the plain verification failure, or the more specific
        # failure if the report also contains the corresponding line
        exc = {'OpenPGPVerificationFailure'}
        if 'EXPKEYSIG' in s:
            exc.add('OpenPGPExpiredKeyFailure')
        if 'REVKEYSIG' in s:
            exc.add('OpenPGPRevokedKeyFailure')
        if 'GOODSIG' in s and 'VALIDSIG' in s and not (s & GOOD_TRUST):
            exc.add('OpenPGPUntrustedSigFailure')
    elif single:
        if 'EXPKEYSIG' in s:
            exc = {'OpenPGPExpiredKeyFailure'}
        elif 'REVKEYSIG' in s:
            exc = {'OpenPGPRevokedKeyFailure'}
        elif 'GOODSIG' in s and 'VALIDSIG' in s and not (s & GOOD_TRUST):
            exc = {'OpenPGPUntrustedSigFailure'}
    return bool(nec), must, exc


_shared_m = None


def run_fake_seq(ctx, seq, rc, go):
    from gemato.exceptions import GematoException, OpenPGPRuntimeError
    from gemato.manifest import ManifestFile
    from gemato.openpgp import SystemGPGEnvironment
    out = ''.join(LINE[x] + '\n' for x in seq).encode()
    FakePopen.script = (rc, out, b'gpg: stderr text\n')
    may, must, excs = predicate(seq, rc)
    nontrivial = any(x in RESULT or x == 'GOODSIG*' for x in seq)
    ctx.case(sig=('fake', may, must, tuple(sorted(excs or ())), rc != 0),
             nontrivial=nontrivial, enumerated=nontrivial, klass='fake')
    case = {'kind': 'fake', 'seq': list(seq), 'rc': rc}
    env = SystemGPGEnvironment()
    # histories: one long-lived ManifestFile is re-loaded again and again (a
    # failed load must not leave the previous 'signed' state behind); every 7th
    # case uses a fresh instance
    global _shared_m
    if _shared_m is None or ctx.counters['evaluations'] % 7 == 0:
        _shared_m = ManifestFile()
    m = _shared_m
    before = FakePopen.spawned
    try:
        m.load(io.StringIO(SIGNED_TEXT), verify_openpgp=True, openpgp_env=env)
    except Exception as exc:
        name = type(exc).__name__
        ctx.count('fake:rejected')
        if not isinstance(exc, GematoException):
            ctx.violation('verify-raises:' + adapt.exc_key(exc),
                          'verification raised non-library exception %r' % (exc,),
                          case)
            return
        if must:
            ctx.violation('rejects-acceptable:' + '+'.join(
                sorted(set(seq) & TRUSTS)) + ':' + name,
                'a good, valid signature by a key of sufficient validity was '
                'rejected with %s' % name, case)
        elif excs and name not in excs:
            ctx.violation('wrong-failure:%s-instead-of-%s' % (
                name, '+'.join(sorted(excs))),
                'raised %s where the report calls for %s' % (name, sorted(excs)),
                case)
        if m.openpgp_signed:
            ctx.violation('signed-flag-after-failure', 'Manifest reports itself '
                          'signed although verification failed', case)
        return
    ctx.count('fake:accepted')
    if rc == 'ENOENT':
        ctx.violation('accepts-unacceptable:backend-missing', 'load with verification '
                      'returned although the OpenPGP program could not be started '
                      '(signed flag %r, %d entries)' % (m.openpgp_signed,
                                                        len(m.entries)), case)
        return
    if FakePopen.spawned == before:
        ctx.violation('accepted-without-backend', 'signed Manifest accepted without '
                      'the OpenPGP backend being run', case)
    if not may:
        ctx.violation('accepts-unacceptable:' + why_not(seq, rc),
                      'signature accepted although %s' % why_not(seq, rc), case)
        return
    if not m.openpgp_signed or m.openpgp_signature is None:
        ctx.violation('accepted-but-not-flagged', 'verification returned but the '
                      'Manifest does not report itself signed', case)
    elif m.openpgp_signature.primary_key_fingerprint != FPR:
        ctx.violation('wrong-signature-data', 'signature data carries a different '
                      'fingerprint than VALIDSIG reported', case)


def why_not(seq, rc):
    seq = tuple('GOODSIG' if x == 'GOODSIG*' else x for x in seq)
    s = set(seq)
    if rc != 0:
        return 'backend-exit-nonzero'
    if 'EXPKEYSIG' in s:
        return 'expired-key-reported'
    if 'REVKEYSIG' in s:
        return 'revoked-key-reported'
    if 'GOODSIG' not in s:
        return 'no-GOODSIG'
    if 'VALIDSIG' not in s:
        return 'no-VALIDSIG'
    if not (s & GOOD_TRUST):
        return 'key-validity-below-marginal'
    return '?'


def run_fake(u, ctx):
    import gemato.openpgp as go
    real = go.subprocess
    go.subprocess = FakeSubprocess
    try:
        if 'exact' in u:
            seqs = [tuple(NAMES[i] for i in u['exact'])]
        else:
            pre = tuple(NAMES[i] for i in u['prefix'])
            seqs = (pre + rest for L in range(0, u['L'] - len(pre) + 1)
                    for rest in itertools.product(NAMES, repeat=L))
        k = 0
        for seq in seqs:
            for rc in (0, 1, 2):
                run_fake_seq(ctx, seq, rc, go)
            if k % 5 == 0:
                # killed by a signal after the report was printed; not installed
                for rc in (-9, -11, -13, 'ENOENT'):
                    run_fake_seq(ctx, seq, rc, go)
                    ctx.count('fake:abnormal-backend-end')
            k += 1
            if k % 3001 == 5:
                ctx.sample({'kind': 'fake', 'seq': list(seq), 'rc': 0}, 'fake')
    finally:
        go.subprocess = real


# ------------------------------------------------------------------ real gpg

KEY_STATES = {
    'valid': (keys.VALID_PUBLIC_KEY, 'own', True),
    'expired': (keys.EXPIRED_PUBLIC_KEY, 'own', False),
    'revoked': (keys.REVOKED_PUBLIC_KEY, 'own', False),
    'unknown-signer': (None, 'own', False),
    'other-key': (keys.OTHER_VALID_PUBLIC_KEY, 'own', False),
    'subkey-bound': (keys.VALID_KEY_SUBKEY, 'subkey', True),
    'subkey-unbound': (keys.UNSIGNED_SUBKEY, 'subkey', False),
    'valid+other': (keys.OTHER_VALID_PUBLIC_KEY + keys.VALID_PUBLIC_KEY, 'own', True),
}
TRUST_FPR = {'other-key': keys.OTHER_KEY_FINGERPRINT}

_signer = None


def signer():
    global _signer
    if _signer is None:
        import atexit
        _signer = gpgenv.Home()
        _signer.import_key(keys.PRIVATE_KEY)
        _signer.set_trust(FPR, 6)
        atexit.register(_signer.close)
    return _signer


def sample_manifest(rng):
    from vf.gen import mtextgen
    ents = [mtextgen.rand_entry(rng, hostile=0.2, tags=['DATA', 'MANIFEST', 'IGNORE',
                                                         'DIST', 'TIMESTAMP'])
            for _ in range(rng.randint(1, 4))]
    return mtext.render(ents)


def verify_with_env(env, text):
    """-> ('ok', sig) or ('exc', exception)"""
    from gemato.manifest import ManifestFile
    m = ManifestFile()
    try:
        m.load(io.StringIO(text), verify_openpgp=True, openpgp_env=env)
    except Exception as exc:
        return 'exc', exc, m
    return 'ok', m.openpgp_signature, m


def run_keys(u, ctx):
    from gemato.exceptions import GematoException
    from gemato.openpgp import IsolatedGPGEnvironment
    import subprocess
    st = u['state']
    keyblob, who, ok_state = KEY_STATES[st]
    rng = common.rng_for(ctx.seed, ID, 'keys', st)
    if who == 'own':
        text = signer().clearsign(sample_manifest(rng))
    else:
        text = keys.SUBKEY_SIGNED_MANIFEST
    outcomes = {}
    for trust in (2, 3, 4, 5, 6):
        case = {'kind': 'keys', 'state': st, 'trust': trust, 'text': text}
        ctx.case(sig=('keys', st, trust), case=case, klass='keys')
        with IsolatedGPGEnvironment() as env:
            if keyblob is not None:
                try:
                    env.import_key(io.BytesIO(keyblob), trust=False)
                except GematoException as exc:
                    # gpg refuses the key altogether: nothing can be accepted
                    pass
                fpr = TRUST_FPR.get(st, FPR)
                subprocess.run(['gpg', '--batch', '--import-ownertrust'],
                               input=('%s:%d:\n' % (fpr, trust)).encode(),
                               env=dict(os.environ, GNUPGHOME=env.home),
                               capture_output=True)
            kind, val, m = verify_with_env(env, text)
        outcomes[trust] = kind
        expect = ok_state and trust >= 4
        if kind == 'ok':
            ctx.count('keys:accepted')
            if not expect:
                ctx.violation('real-accepts:%s:trust%d' % (st, trust),
                              'signature accepted for key state %s at owner trust %d'
                              % (st, trust), case)
            elif not m.openpgp_signed:
                ctx.violation('accepted-but-not-flagged', 'verified but not flagged',
                              case)
        else:
            ctx.count('keys:rejected')
            if not isinstance(val, GematoException):
                ctx.violation('verify-raises:' + adapt.exc_key(val),
                              'non-library exception %r' % (val,), case)
            elif expect:
                ctx.violation('real-rejects:%s:trust%d:%s' % (
                    st, trust, type(val).__name__),
                    'valid signature by a %s key at owner trust %d rejected with %s'
                    % (st, trust, type(val).__name__), case)
            elif m.openpgp_signed:
                ctx.violation('signed-flag-after-failure', 'flagged signed after '
                              'failure', case)
            else:
                want = {'expired': 'OpenPGPExpiredKeyFailure',
                        'revoked': 'OpenPGPRevokedKeyFailure'}.get(st)
                # gpg may also exit non-zero for such keys, which the statement
                # maps to the plain verification failure
                if want and type(val).__name__ not in (
                        want, 'OpenPGPVerificationFailure'):
                    ctx.violation('wrong-failure:%s-instead-of-%s' % (
                        type(val).__name__, want),
                        'key state %s reported as %s' % (st, type(val).__name__),
                        case)
    # monotonicity in key validity
    seen_ok = False
    for trust in (2, 3, 4, 5, 6):
        if outcomes[trust] == 'ok':
            seen_ok = True
        elif seen_ok:
            ctx.violation('non-monotone:%s' % st, 'acceptance not monotone in key '
                          'validity: %r' % (outcomes,),
                          {'kind': 'keys', 'state': st, 'trust': trust, 'text': text})
            break
    ctx.sample({'kind': 'keys', 'state': st, 'outcomes': outcomes}, 'keys')


def run_mut(u, ctx):
    from gemato.exceptions import GematoException
    from gemato.openpgp import IsolatedGPGEnvironment
    rng = common.rng_for(ctx.seed, ID, 'mut', u['i'])
    text = signer().clearsign(sample_manifest(rng))
    lines = text.split('\n')
    sep = lines.index('')
    sigb = lines.index('-----BEGIN PGP SIGNATURE-----')
    # character offsets of the signed body
    start = sum(len(ln) + 1 for ln in lines[:sep + 1])
    end = sum(len(ln) + 1 for ln in lines[:sigb])
    with IsolatedGPGEnvironment() as env:
        env.import_key(io.BytesIO(keys.VALID_PUBLIC_KEY))
        kind, val, m = verify_with_env(env, text)
        if kind != 'ok':
            ctx.violation('real-rejects-original', 'unmodified signed Manifest '
                          'rejected: %r' % (val,), {'kind': 'mut', 'text': text})
            return
        positions = list(range(start, end))
        if ctx.tier == 'quick' and len(positions) > 150:
            positions = sorted(rng.sample(positions, 150))
        for pos in positions:
            ch = text[pos]
            for rep in ('x', '0', ' '):
                if rep == ch:
                    continue
                t2 = text[:pos] + rep + text[pos + 1:]
                # skip mutations that only alter trailing whitespace of a line
                l0 = text.rfind('\n', 0, pos) + 1
                l1 = text.find('\n', pos)
                if text[l0:l1].rstrip(' \t\r') == t2[l0:l1 + (len(t2) - len(text))].rstrip(' \t\r'):
                    ctx.count('mut:skipped-trailing-ws')
                    continue
                if ch == '\n':
                    continue
                case = {'kind': 'muttext', 'text': t2, 'pos': pos, 'rep': rep}
                ctx.case(sig=('mut', rep, ch.isspace()), case=case, klass='mut')
                kind, val, m = verify_with_env(env, t2)
                if kind == 'ok':
                    ctx.violation('mutated-signed-text-accepted',
                                  'signed byte %d changed %r -> %r and the signature '
                                  'was still accepted' % (pos, ch, rep), case)
                else:
                    ctx.count('mut:rejected')
                    if not isinstance(val, GematoException):
                        ctx.violation('verify-raises:' + adapt.exc_key(val),
                                      'non-library exception %r' % (val,), case)
        # ... and bytes added behind what GnuPG hashes of a line (it covers 19993
        # bytes and takes the blanks before that for trailing white space): the signed
        # text has changed by more than trailing white space, gpg still says GOOD
        body = [i for i in range(sep + 1, sigb) if lines[i] and not
                lines[i].startswith('-')]
        for total in (20000, 24576, 65537):
            for tail in ('x', 'DATA evil.sh 0', 'IGNORE evil-dir',
                         'DIST evil.tar 1 MD5 ' + 'ab' * 16):
                if not body:
                    break
                i = body[(total + len(tail)) % len(body)]
                l2 = list(lines)
                l2[i] = lines[i] + ' ' * max(1, total - len(lines[i].encode('utf8'))) \
                    + tail
                t2 = '\n'.join(l2)
                case = {'kind': 'muttext', 'text': t2, 'pos': -1, 'rep': 'long-line'}
                ctx.case(sig=('mut-long', total, tail[:4]), case=case, klass='mut')
                ctx.count('mut:long_line_cases')
                kind, val, m = verify_with_env(env, t2)
                if kind == 'ok':
                    ctx.violation('mutated-signed-text-accepted:beyond-gpg-line-limit',
                                  '%r appended behind %d bytes of padding on a signed '
                                  'line and the signature was still accepted'
                                  % (tail, total), case)
                elif not isinstance(val, GematoException):
                    ctx.violation('verify-raises:' + adapt.exc_key(val),
                                  'non-library exception %r' % (val,), case)
        ctx.sample({'kind': 'mut', 'len': end - start, 'positions': len(positions)},
                   'mut')


# ------------------------------------------------------------------ isolation

def write_tree(d, manifest_text):
    os.makedirs(d, exist_ok=True)
    with open(os.path.join(d, 'Manifest'), 'w') as f:
        f.write(manifest_text)


def cli(argv):
    from gemato import cli as gcli
    try:
        return gcli.main(['gemato'] + argv)
    except SystemExit as exc:
        return 'exit:%s' % exc.code
    except OSError as exc:
        return exc


USER_HOMES = ['empty', 'signer-ultimate', 'other-keys']
KEYFILES = {'signer': keys.VALID_PUBLIC_KEY, 'other': keys.OTHER_VALID_PUBLIC_KEY,
            'both': keys.OTHER_VALID_PUBLIC_KEY + keys.VALID_PUBLIC_KEY,
            'empty-name': None}     # -K '' : an explicitly given but empty file name


def run_iso(u, ctx):
    uh = USER_HOMES[u['i'] % 3]
    kf = list(KEYFILES)[(u['i'] // 3) % len(KEYFILES)]
    proxy = u['i'] >= 3 * len(KEYFILES)
    rng = common.rng_for(ctx.seed, ID, 'iso', u['i'])
    signed = signer().clearsign('DATA f 0\n')
    with common.Scratch('vf-c05-') as d:
        tree = os.path.join(d, 'tree')
        write_tree(tree, signed)
        with open(os.path.join(tree, 'f'), 'w'):
            pass
        kpath = os.path.join(d, 'key.bin')
        if KEYFILES[kf] is None:
            kpath = ''
        else:
            with open(kpath, 'wb') as f:
                f.write(KEYFILES[kf])
        user = gpgenv.Home(direct_trust=True, base=d)
        try:
            if uh == 'signer-ultimate':
                user.import_key(keys.VALID_PUBLIC_KEY)
                user.set_trust(FPR, 6)
            elif uh == 'other-keys':
                user.import_key(keys.OTHER_VALID_PUBLIC_KEY)
                user.set_trust(keys.OTHER_KEY_FINGERPRINT, 6)
            # settle the user's trustdb so that gpg has no reason to rewrite it
            user.gpg(['--list-keys'])
            user.gpg(['--check-trustdb'])
            os.environ['GNUPGHOME'] = user.dir
            snap0 = user.snapshot()
            del _spawns[:]
            tmp_before = set(os.listdir(common.scratch_base()))
            rc = cli(['verify', '-K', kpath, '-R'] +
                     (['--proxy', 'http://127.0.0.1:9'] if proxy else []) +
                     ['-s', tree])
            snap1 = user.snapshot()
            os.environ.pop('GNUPGHOME', None)
            case = {'kind': 'iso', 'user_home': uh, 'keyfile': kf, 'proxy': proxy}
            ctx.case(sig=('iso', uh, kf, proxy), case=case, klass='iso')
            ctx.count('iso:runs')
            expect_ok = kf in ('signer', 'both')
            if isinstance(rc, Exception):
                # (a key file that cannot be opened is a genuine OS error)
                rc = 'raised:' + type(rc).__name__
            if (rc == 0) != expect_ok:
                ctx.violation('isolation:%s:%s' % ('accepted' if rc == 0 else
                                                   'rejected', kf),
                              'verify -K with key file %r and user keyring %r -> %r'
                              % (kf, uh, rc), case)
            if snap0 != snap1:
                ctx.violation('user-keyring-touched', 'the user\'s GNUPGHOME changed '
                              'during an isolated run: %r' % sorted(
                                  k for k in set(snap0) | set(snap1)
                                  if snap0.get(k) != snap1.get(k)), case)
            gp = [s for s in _spawns if os.path.basename(s[0] or '').startswith('gpg')
                  or (s[1] and os.path.basename(s[1][0]).startswith('gpg'))]
            ctx.count('spawn_audit_events', len(gp))
            homes = set()
            for exe, argv, env in gp:
                h = (env or {}).get('GNUPGHOME')
                homes.add(h)
                if h is None or os.path.realpath(h) == os.path.realpath(user.dir):
                    ctx.violation('isolated-spawn-in-user-home', 'gpg spawned with '
                                  'GNUPGHOME=%r during an isolated run: %r'
                                  % (h, argv), case)
            for h in homes:
                if h and os.path.exists(h) and os.path.realpath(h) != \
                        os.path.realpath(user.dir):
                    ctx.violation('private-home-left-behind', 'isolated GNUPGHOME %r '
                                  'still exists after the command' % h, case)
            # ---- library: an isolated environment used again after close() has no
            # keys of its own any more; it must not fall back to the user's keyring
            if KEYFILES[kf] is not None:
                import io
                from gemato.openpgp import IsolatedGPGEnvironment
                os.environ['GNUPGHOME'] = user.dir
                env = IsolatedGPGEnvironment()
                got = None
                try:
                    try:
                        with open(kpath, 'rb') as f:
                            env.import_key(f)
                    except Exception:
                        pass
                    env.close()
                    ctx.count('iso:after_close_runs')
                    try:
                        with io.StringIO(signed) as f:
                            got = env.verify_file(f)
                    except Exception:
                        got = None
                    try:
                        env.import_key(io.BytesIO(keys.VALID_PUBLIC_KEY))
                    except Exception:
                        pass
                finally:
                    try:
                        env.close()
                    except Exception:
                        pass
                    os.environ.pop('GNUPGHOME', None)
                if got is not None and kf not in ('signer', 'both'):
                    ctx.violation('closed-isolated-env-uses-user-keyring',
                                  'verify_file() on a closed isolated environment (key '
                                  'file %r, user keyring %r) returned signature data'
                                  % (kf, uh), case)
                snap2 = user.snapshot()
                if snap2 != snap1:
                    ctx.violation('user-keyring-touched:after-close', 'the user\'s '
                                  'GNUPGHOME changed when a closed isolated environment '
                                  'was used again: %r' % sorted(
                                      k for k in set(snap1) | set(snap2)
                                      if snap1.get(k) != snap2.get(k)), case)
            ctx.sample({'kind': 'iso', 'user_home': uh, 'keyfile': kf, 'rc': rc,
                        'gpg_spawns': len(gp)}, 'iso')
        finally:
            os.environ.pop('GNUPGHOME', None)
            user.close()


def run_cli(u, ctx):
    rng = common.rng_for(ctx.seed, ID, 'cli', u['i'])
    good = signer().clearsign('DATA f 0\n')
    # badly signed: body altered after signing
    bad = good.replace('DATA f 0', 'DATA f 0 MD5 d41d8cd98f00b204e9800998ecf8427e')
    plain = 'DATA f 0\n'
    import tempfile
    with common.Scratch('vf-c05-') as d:
        # (debug runs leave their key rings behind: keep them inside the scratch)
        old_tmp = (os.environ.get('TMPDIR'), tempfile.tempdir)
        os.makedirs(os.path.join(d, 'tmp'))
        os.environ['TMPDIR'] = os.path.join(d, 'tmp')
        tempfile.tempdir = os.path.join(d, 'tmp')
        try:
            _run_cli(u, ctx, rng, d, good, bad, plain)
        finally:
            tempfile.tempdir = old_tmp[1]
            if old_tmp[0] is None:
                os.environ.pop('TMPDIR', None)
            else:
                os.environ['TMPDIR'] = old_tmp[0]


def _run_cli(u, ctx, rng, d, good, bad, plain):
    if True:
        kpath = os.path.join(d, 'key.bin')
        with open(kpath, 'wb') as f:
            f.write(keys.VALID_PUBLIC_KEY)
        okpath = os.path.join(d, 'other.bin')
        with open(okpath, 'wb') as f:
            f.write(keys.OTHER_VALID_PUBLIC_KEY)
        for kind, text in (('plain', plain), ('good', good), ('bad', bad)):
            tree = os.path.join(d, 'tree-' + kind)
            write_tree(tree, text)
            with open(os.path.join(tree, 'f'), 'w'):
                pass
            for s in (False, True, 'debug'):
                # (third round: -s together with --debug, whose isolated key ring is
                # kept for inspection - but is still a fresh one for every run)
                dbg = s == 'debug'
                s = bool(s)
                for P in (False, True):
                    for K in (None, 'signer', 'other'):
                        argv = ['verify', '-R']
                        if dbg:
                            argv.append('--debug')
                            ctx.count('cli:debug_runs')
                        if s:
                            argv.append('-s')
                        if P:
                            argv.append('-P')
                        if K:
                            argv += ['-K', kpath if K == 'signer' else okpath]
                        argv.append(tree)
                        if K is None:
                            os.environ['GNUPGHOME'] = signer().dir
                        else:
                            os.environ.pop('GNUPGHOME', None)
                        try:
                            rc = cli(argv)
                        finally:
                            os.environ.pop('GNUPGHOME', None)
                        case = {'kind': 'cli', 'manifest': kind, 's': s, 'P': P,
                                'K': K}
                        ctx.case(sig=('cli', kind, s, P, K), case=case, klass='cli')
                        ctx.count('cli:runs')
                        accepted_sig = (kind == 'good' and not P and K != 'other')
                        if s and rc == 0 and not accepted_sig:
                            ctx.violation('require-signed-passes:%s:P=%s:K=%s' % (
                                kind, P, K), '--require-signed-manifest exited 0 '
                                'without an accepted signature', case)
                        if s and accepted_sig and rc != 0:
                            ctx.violation('require-signed-fails-on-good',
                                          '-s rejects a well signed Manifest (rc=%r)'
                                          % (rc,), case)
                        if not P and kind == 'bad' and rc == 0:
                            ctx.violation('bad-signature-passes:K=%s' % K,
                                          'verify exits 0 on a badly signed Manifest',
                                          case)
                        if not P and kind == 'good' and K == 'other' and rc == 0:
                            ctx.violation('foreign-key-passes', 'verify -K other-key '
                                          'exits 0', case)
                        if kind == 'plain' and not s and rc != 0:
                            ctx.violation('plain-fails', 'unsigned tree fails without '
                                          '-s (rc=%r)' % (rc,), case)
        # several trees on one command line: -s asks for an accepted signature on each
        for order in (('plain', 'good'), ('good', 'plain'), ('bad', 'good'),
                      ('good', 'good'), ('plain', 'good', 'good')):
            argv = ['verify', '-R', '-s', '-K', kpath] + [
                os.path.join(d, 'tree-' + k) for k in order]
            rc = cli(argv)
            case = {'kind': 'cli', 'manifest': '+'.join(order), 's': True, 'P': False,
                    'K': 'signer'}
            ctx.case(sig=('cli-multi', order), case=case, klass='cli')
            ctx.count('cli:multi_path_runs')
            all_good = all(k == 'good' for k in order)
            if rc == 0 and not all_good:
                ctx.violation('require-signed-passes:multi-path', '`verify -s %s` exits '
                              '0 although not every tree carries an accepted signature'
                              % ' '.join(order), case)
            elif rc != 0 and all_good:
                ctx.violation('require-signed-fails-on-good', '`verify -s good good` '
                              'exits %r' % (rc,), case)
        ctx.sample({'kind': 'cli', 'matrix': '3 manifests x -s x -P x -K{none,signer,'
                    'other}'}, 'cli')


class _HKP:
    """Minimal local HKP key server (localhost only)."""

    def __init__(self, keymap):
        import functools
        import http.server
        import threading
        from urllib.parse import parse_qs, urlparse
        keys_ = keymap

        class H(http.server.BaseHTTPRequestHandler):
            def log_message(self, *a, **k):
                pass

            def do_GET(self):
                q = parse_qs(urlparse(self.path).query)
                key = (q.get('search') or [''])[0]
                key = key[2:] if key.startswith('0x') else key
                blob = keys_.get(key) or keys_.get(key.upper())
                if blob is None:
                    for k2, v in keys_.items():
                        if k2.endswith(key.upper()):
                            blob = v
                if blob is None:
                    self.send_error(404)
                    return
                self.send_response(200)
                self.send_header('Content-type', 'application/pgp-keys')
                self.end_headers()
                self.wfile.write(blob)
        self.server = http.server.HTTPServer(('127.0.0.1', 0), H)
        self.addr = 'hkp://127.0.0.1:%d' % self.server.server_address[1]
        self.thread = threading.Thread(target=self.server.serve_forever, daemon=True)
        self.thread.start()

    def stop(self):
        self.server.shutdown()
        self.server.server_close()
        self.thread.join(5)


def run_refresh(u, ctx):
    """History on ONE environment object: import, verify (good), refresh brings a
    revocation / expiry from a local key server, verify again."""
    from gemato.exceptions import GematoException
    from gemato.openpgp import IsolatedGPGEnvironment
    rng = common.rng_for(ctx.seed, ID, 'refresh', u['i'])
    new_state = ['revoked', 'expired'][u['i'] % 2]
    blob = keys.REVOKED_PUBLIC_KEY if new_state == 'revoked' else keys.EXPIRED_PUBLIC_KEY
    text = signer().clearsign(sample_manifest(rng))
    text2 = signer().clearsign(sample_manifest(rng))
    case = {'kind': 'refresh', 'new_state': new_state, 'text': text}
    ctx.case(sig=('refresh', new_state), case=case, klass='refresh')
    srv = _HKP({FPR: blob})
    try:
        with IsolatedGPGEnvironment() as env:
            env.import_key(io.BytesIO(keys.VALID_PUBLIC_KEY))
            kind, val, m = verify_with_env(env, text)
            if kind != 'ok':
                ctx.violation('real-rejects-original', 'valid signature rejected before '
                              'the refresh: %r' % (val,), case)
                return
            try:
                env.refresh_keys(allow_wkd=False, keyserver=srv.addr)
            except GematoException as exc:
                ctx.count('refresh_unavailable')
                ctx.notes['refresh_unavailable:' + type(exc).__name__] += 1
                return
            ctx.count('refresh_runs')
            for which, t in (('same-text', text), ('new-text', text2)):
                kind, val, m = verify_with_env(env, t)
                if kind == 'ok':
                    ctx.violation('accepted-after-key-%s:%s' % (new_state, which),
                                  'after refresh_keys() delivered a %s key the '
                                  'signature (%s) is still accepted on the same '
                                  'environment object' % (new_state, which), case)
                    return
                if not isinstance(val, GematoException):
                    ctx.violation('verify-raises:' + adapt.exc_key(val),
                                  'non-library exception %r' % (val,), case)
                    return
    finally:
        srv.stop()
    ctx.sample({'kind': 'refresh', 'new_state': new_state}, 'refresh')


def run_unit(u, ctx):
    {'fake': run_fake, 'keys': run_keys, 'mut': run_mut, 'iso': run_iso,
     'cli': run_cli, 'refresh': run_refresh}[u['k']](u, ctx)


def replay(case, ctx):
    k = case['kind']
    if k == 'fake':
        import gemato.openpgp as go
        real = go.subprocess
        go.subprocess = FakeSubprocess
        try:
            run_fake_seq(ctx, tuple(case['seq']), case['rc'], go)
        finally:
            go.subprocess = real
    elif k == 'keys':
        run_keys({'state': case['state']}, ctx)
    elif k == 'muttext':
        from gemato.openpgp import IsolatedGPGEnvironment
        with IsolatedGPGEnvironment() as env:
            env.import_key(io.BytesIO(keys.VALID_PUBLIC_KEY))
            kind, val, m = verify_with_env(env, case['text'])
            if kind == 'ok':
                ctx.violation('mutated-signed-text-accepted', 'mutated signed text '
                              'accepted', case)
    elif k == 'iso':
        i = list(KEYFILES).index(case['keyfile']) * 3 + USER_HOMES.index(case['user_home'])
        if case.get('proxy'):
            i += 3 * len(KEYFILES)
        run_iso({'i': i}, ctx)
    elif k == 'cli':
        run_cli({'i': 0}, ctx)
    elif k == 'refresh':
        run_refresh({'i': 0 if case['new_state'] == 'revoked' else 1}, ctx)
