"""C09 - malformed Manifest text is rejected with a syntax error, never misread.

Every text is loaded by the real ManifestFile.load and compared with an
independent three-valued line classifier (vf.model.classify) written from the
statement: MUST_ACCEPT (decoded entries must be equal), MUST_REJECT (must raise
ManifestSyntaxError / ManifestUnsignedData), EITHER (zones U5/U6: only the
exception type is constrained).
"""
import io

from vf import adapt, common
from vf.gen import mtextgen
from vf.model import classify, mtext

ID = 'C09'
LEVEL = 'exploration'
RULE = ('units: esc = every \\xHH, every \\uHHHH, \\UHHHHHHHH over 0..0x110000 '
        '(stride-sampled in quick, complete in thorough) plus boundary values, each '
        'as a path in 3 positions; tok = every token sequence of length <= L over a '
        '16-token alphabet (exhaustive); gram = seeded grammar texts with each field '
        'independently valid/invalid/unconstrained; mut = byte-level mutants of valid '
        'texts (UTF-8-valid ones only, discards counted). Non-trivial = classifier '
        'verdict is MUST_REJECT, or MUST_ACCEPT with at least one entry; distinct = '
        'distinct texts.')
ANCHORS = ['manifest:ManifestFile.load', 'manifest:ManifestPathEntry.process_path',
           'manifest:ManifestPathEntry.decode_char',
           'manifest:ManifestFileEntry.process_checksums',
           'manifest:ManifestEntryTIMESTAMP.from_list',
           'manifest:ManifestEntryDIST.from_list']
REQUIRED = ['manifest:ManifestFile.load', 'manifest:ManifestPathEntry.decode_char',
            'expect:reject', 'expect:accept', 'framed_texts', 'long_lines',
            'late_escapes']
ASSUMPTIONS = ['texts are str (valid UTF-8); lines containing whitespace other than '
               'space/tab, armor-like lines, exotic integer syntax (+1, 1_0, -0, '
               'non-ASCII digits), surrogate escapes and non-padded timestamps are '
               'unconstrained (U5/U6): only the exception type is checked there']


def EXHAUSTIVE(tier):
    return ('all 256 \\xHH and all 65536 \\uHHHH escapes; token sequences of length '
            '<= %d over %d tokens%s' % (
                3 if tier == 'quick' else 4, len(mtextgen.TOKEN_ALPHABET),
                '' if tier == 'quick' else '; every \\UHHHHHHHH in 0..0x110000'))


BOUNDARY_U = [0x10fffe, 0x10ffff, 0x110000, 0x110001, 0x1fffff, 0x7fffffff,
              0x80000000, 0xfffffffe, 0xffffffff, 0xd7ff, 0xd800, 0xdbff, 0xdc00,
              0xdfff, 0xe000, 0xffff, 0x10000, 0x2f, 0x5c, 0x20, 0x0a, 0x00]


def units(tier, seed):
    u = [{'k': 'esc', 'form': 'x', 'lo': 0, 'hi': 256}]
    for lo in range(0, 0x10000, 0x1000):
        u.append({'k': 'esc', 'form': 'u', 'lo': lo, 'hi': lo + 0x1000})
    if tier == 'quick':
        for lo in range(0, 0x110000, 0x10000):
            u.append({'k': 'esc', 'form': 'U', 'lo': lo, 'hi': lo + 0x10000,
                      'step': 61})
    else:
        for lo in range(0, 0x110000, 0x4000):
            u.append({'k': 'esc', 'form': 'U', 'lo': lo, 'hi': lo + 0x4000,
                      'step': 1})
    u.append({'k': 'esc', 'form': 'Ub'})
    L = 3 if tier == 'quick' else 4
    n = len(mtextgen.TOKEN_ALPHABET)
    # split the sequence space by first token (and second for the long tier)
    for a in range(n):
        if tier == 'quick':
            u.append({'k': 'tok', 'L': L, 'first': [a]})
        else:
            for b in range(n):
                u.append({'k': 'tok', 'L': L, 'first': [a, b]})
    u.append({'k': 'tok', 'L': 1 if tier == 'quick' else 1, 'first': []})
    u.append({'k': 'framed', 'L': 3 if tier == 'quick' else 5})
    u.append({'k': 'long'})
    ngram, nmut = (400, 300) if tier == 'quick' else (15000, 15000)
    for i in range(ngram):
        u.append({'k': 'gram', 'i': i, 'n': 50})
    for i in range(nmut):
        u.append({'k': 'mut', 'i': i, 'n': 50})
    return u


def setup_worker(ctx):
    common.use_repo()


ALLOWED = ('ManifestSyntaxError', 'ManifestUnsignedData')


def judge(ctx, text, case, enumerated=False, klass=None):
    """Load @text with gemato and compare with the classifier."""
    from gemato.manifest import ManifestFile
    verdict, want_entries, reasons = classify.classify_text(text)
    nontrivial = (verdict == classify.REJECT
                  or (verdict == classify.ACCEPT and bool(want_entries)))
    sig = (verdict, tuple(sorted(set(reasons)))[:4])
    ctx.case(sig=sig, case=None if enumerated else case, nontrivial=nontrivial,
             klass=klass, enumerated=enumerated and nontrivial)
    ctx.count('expect:' + verdict)
    m = ManifestFile()
    try:
        m.load(io.StringIO(text), verify_openpgp=False)
    except Exception as exc:
        name = type(exc).__name__
        if name not in ALLOWED:
            ctx.violation('escapes:' + adapt.exc_key(exc),
                          'exception %s escapes ManifestFile.load (only the syntax-'
                          'error / unsigned-data exceptions may)' % name, case,
                          {'exc': repr(exc), 'verdict': verdict})
            return
        if verdict == classify.ACCEPT:
            ctx.violation('rejects-valid', 'a text whose every line is valid per '
                          'the statement was rejected: %r' % (exc,), case)
        elif verdict == classify.EITHER:
            ctx.unconstrained(reasons[0] if reasons else '?')
        return
    # accepted
    got = [adapt.norm_gemato(e) for e in m.entries]
    if verdict == classify.REJECT:
        why = [r for r in reasons if not r.startswith('~')][0]
        ctx.violation('accepts-malformed:' + why.replace(' ', '-'),
                      'malformed text accepted (%s)' % why, case,
                      {'entries': got, 'reasons': reasons})
        return
    nlines = sum(1 for ln in text.split('\n') if ln.split())
    if len(got) != nlines:
        ctx.violation('line-skipped', '%d non-blank lines but %d entries: a line '
                      'was silently skipped or split' % (nlines, len(got)), case,
                      {'entries': got})
        return
    if verdict == classify.EITHER:
        ctx.unconstrained(reasons[0] if reasons else '?')
        return
    want = []
    for e in want_entries:
        w = adapt.norm_model(e)
        want.append(w)
    if any(e.get('dup_sums') for e in want_entries):
        ctx.unconstrained('duplicate checksum name on one line')
        return
    if got != want:
        ctx.violation('misread', 'accepted text decoded differently from the '
                      'independent classifier', case, {'want': want, 'got': got})


def run_esc(u, ctx):
    form = u['form']
    if form == 'Ub':
        vals = BOUNDARY_U
        w, letter = 8, 'U'
    else:
        vals = range(u['lo'], u['hi'], u.get('step', 1))
        w = {'x': 2, 'u': 4, 'U': 8}[form]
        letter = form
    k = 0
    for v in vals:
        esc = '\\%s%0*X' % (letter, w, v)
        for pos, tmpl in enumerate(('DATA a%sb 0', 'IGNORE %s', 'DIST %sz 1 SHA1 ff')):
            text = tmpl % esc + '\n'
            judge(ctx, text, {'kind': 'text', 'text': text}, enumerated=True,
                  klass='escape-' + letter)
        k += 1
        if k % 4099 == 1:
            ctx.sample({'kind': 'text', 'text': 'DATA a%sb 0\n' % esc}, 'escape')
    if form in ('x', 'Ub'):
        # lower-case hex digits and truncated forms
        for v in (0x2f, 0x5c, 0xff, 0x0a):
            for esc in ('\\x%02x' % v, '\\x%X' % (v >> 4), '\\u%03X' % v,
                        '\\U%07X' % v, '\\x%02X\\' % v):
                text = 'DATA %s 0\n' % esc
                judge(ctx, text, {'kind': 'text', 'text': text}, klass='escape-odd')
        # the n-th escape of a path is treated like the first: invalid forms after
        # many valid ones are rejected, valid ones are decoded
        for n in (1, 2, 31, 32, 33, 64, 257, 1000):
            lead = ''.join('\\x20' if i % 2 else 'a\\u0020' for i in range(n))
            for esc in ('\\x2', '\\t', '\\', '\\xZZ', '\\U00110000', '\\u12', '\\x41',
                        '\\u00E9', '\\U0001F600'):
                for tmpl in ('DATA %s%sz 0', 'IGNORE %s%s'):
                    text = tmpl % (lead, esc) + '\n'
                    judge(ctx, text, {'kind': 'text', 'text': text},
                          klass='escape-late')
                    ctx.count('late_escapes')


def run_tok(u, ctx):
    import itertools
    toks = mtextgen.TOKEN_ALPHABET
    first = [toks[i] for i in u['first']]
    L = u['L']
    if not first:
        for t in toks:
            text = t + '\n'
            judge(ctx, text, {'kind': 'text', 'text': text}, enumerated=True,
                  klass='tokens')
        return
    k = 0
    for n in range(len(first), L + 1):
        for rest in itertools.product(toks, repeat=n - len(first)):
            text = ' '.join(first + list(rest)) + '\n'
            judge(ctx, text, {'kind': 'text', 'text': text}, enumerated=True,
                  klass='tokens')
            k += 1
            if k % 1013 == 7:
                ctx.sample({'kind': 'text', 'text': text}, 'tokens')


def run_gram(u, ctx):
    for j in range(u['n']):
        rng = common.rng_for(ctx.seed, ID, 'gram', u['i'], j)
        if rng.random() < 0.5:
            text = mtextgen.grammar_line(rng) + '\n'
        else:
            text = mtextgen.grammar_text(rng)
        case = {'kind': 'text', 'text': text}
        judge(ctx, text, case, klass='grammar')
        ctx.sample(case, 'grammar')


def run_mut(u, ctx):
    for j in range(u['n']):
        rng = common.rng_for(ctx.seed, ID, 'mut', u['i'], j)
        ents = mtextgen.rand_entries(rng, maxn=5, hostile=0.3)
        if not ents:
            ents = [mtextgen.rand_entry(rng)]
        base = mtext.render(ents)
        text = mtextgen.mutate_text(rng, base)
        if text is None:
            ctx.discarded('mutant not utf-8')
            continue
        case = {'kind': 'text', 'text': text}
        judge(ctx, text, case, klass='mutant')
        ctx.sample(case, 'mutant')


def run_framed(u, ctx):
    """Entry lines inside a cleartext-signature frame (loaded without verification):
    every body of up to L lines over {valid, dash-escaped valid, dash-escaped armor,
    junk, blank} - nothing may be skipped or misread there either.  The framing
    oracle is C04's (vf.model.cleartext)."""
    import itertools
    from vf.checks import c04
    for L in range(1, u['L'] + 1):
        for body in itertools.product('VDAJ_', repeat=L):
            # complete frame, and frames whose only "signature header" is a
            # dash-escaped one inside the body
            for tail in ('SHE', 'HE', 'E'):
                seq = 'B_' + ''.join(body) + tail
                for shift in (0, 1, 2):
                    lines = [c04.line_for(c, i + shift) for i, c in enumerate(seq)]
                    text = '\n'.join(lines) + '\n'
                    c04.judge_text(ctx, text, {'kind': 'text', 'text': text,
                                               'framed': seq},
                                   enumerated=True, klass='framed')
                    ctx.count('framed_texts')


LONG_HEADS = ['IGNORE foo', 'TIMESTAMP 2017-10-22T18:06:41Z', 'DATA foo 1',
              'DATA foo 1 SHA1', 'DATA foo 1 SHA1 abcd', 'DIST d 2 MD5']
LONG_TAILS = ['IGNORE bar', 'DATA x 0', 'abcd', 'SHA1 abcd', '']
LONG_SIZES = [4096, 8192, 65536, 131072, 1 << 20]


def long_text(spec):
    head, pad, tail = spec['head'], spec['padchar'] * spec['pad'], spec['tail']
    return spec['before'] + head + pad + tail + '\n' + spec['after']


def run_long(u, ctx):
    """One physical line far longer than any read buffer: the separator between two
    fields is a run of blanks placed so that the next field starts exactly at (or
    just around) a power-of-two offset.  It is still ONE line."""
    n = 0
    for size in LONG_SIZES:
        for head in LONG_HEADS:
            for tail in LONG_TAILS:
                for delta in (-1, 0, 1):
                    spec = {'head': head, 'tail': tail,
                            'pad': size + delta - len(head),
                            'padchar': ' \t'[n % 2], 'before': ['', 'IGNORE a\n'][n % 2],
                            'after': ['', 'IGNORE z\n'][(n // 2) % 2]}
                    if spec['before']:
                        spec['pad'] -= len(spec['before'])
                    n += 1
                    text = long_text(spec)
                    case = {'kind': 'long', 'spec': spec}
                    judge(ctx, text, case, klass='long')
                    ctx.count('long_lines')


def run_unit(u, ctx):
    {'esc': run_esc, 'tok': run_tok, 'gram': run_gram, 'mut': run_mut,
     'framed': run_framed, 'long': run_long}[u['k']](u, ctx)


def replay(case, ctx):
    if case.get('framed'):
        from vf.checks import c04
        c04.judge_text(ctx, case['text'], case, enumerated=False, klass='framed')
    elif case.get('kind') == 'long':
        judge(ctx, long_text(case['spec']), case, klass='long')
    else:
        judge(ctx, case['text'], case)
