"""C07 - keep-going reports every offending path exactly once; exit status
reflects any failure; structural problems are still raised.

Real assert_directory_verifies(fail_handler=recorder) and `gemato verify -k`
on trees with many simultaneous discrepancies, under permuted directory
enumeration orders (WalkPermuter), compared with vf.model.match.  A stress unit
lowers RLIMIT_NOFILE so that a per-offender resource leak becomes an observable
failure.
"""
import hashlib
import logging
import os
import resource

from vf import adapt, common
from vf.gen import mutate as gmutate
from vf.gen import scenario
from vf.model import match as mmatch
from vf.model import mtext
from vf.mon import contracts, walkperm

ID = 'C07'
LEVEL = 'exploration'
RULE = ('case = seeded tree + consistent layout + 2..12 simultaneous mutations '
        '(missing / altered / re-typed / stray / ghost entries, several directories) '
        '+ verified sub-path + handler policy {always False, always True, None, mixed '
        'by path hash} + permuted os.walk enumeration order; library and CLI (-k). '
        'stress = many strays under a lowered RLIMIT_NOFILE; loop = a directory '
        'symlink loop next to discrepancies; structural = `verify -k` on a loop / '
        'conflicting entries / -x crossing, alone and next to a clean tree; big = <= 150 '
        'files with 5..40 mutations. Non-trivial = >= 2 offending paths; '
        'distinct = hash of the materialised case.')
ANCHORS = ['recursiveloader:ManifestRecursiveLoader.assert_directory_verifies',
           'recursiveloader:SubprocessVerifier.__call__',
           'recursiveloader:SubprocessVerifier._verify_one_file',
           'cli:verify_failure', 'verify:get_file_metadata']
REQUIRED = ['recursiveloader:SubprocessVerifier._verify_one_file', 'handler_calls',
            'cli_runs', 'cli_multi_runs', 'walk_permuted', 'stress_runs', 'loop_runs',
            'structural_cli_runs', 'process_exit_statuses', 'cli_nested_runs']
ASSUMPTIONS = ['the Manifest chain is intact and duplicates agree in this workload '
               '(a broken chain / conflict is raised directly, C01/C02)',
               'handler return values are True / False / None']

CLASSES = ['content', 'size', 'delete', 'retype', 'stray', 'stray', 'stray-lookalike',
           'stray-special', 'stray-manifest-name', 'm-digest', 'm-size', 'm-drop',
           'm-ghost', 'm-ghost', 'm-disjoint-wrong', 'm-compatible-dup',
           'm-manifest-dup-wrong', 'm-manifest-dup-wrong', 'm-entry-for-dir',
           'hidden-listed', 'hidden-listed', 'm-ignore-missing-parent',
           'm-ignore-missing-parent']
N = {'quick': 2500, 'thorough': 100000}
PER_UNIT = 25
POLICIES = ['false', 'true', 'none', 'mixed']


def units(tier, seed):
    u = [{'k': 'gen', 'i': i, 'n': PER_UNIT} for i in range(N[tier] // PER_UNIT)]
    for i in range(6 if tier == 'quick' else 60):
        u.append({'k': 'stress', 'i': i})
    for n in ([255, 256, 512] if tier == 'quick' else
              [1, 255, 256, 257, 511, 512, 768, 1024]):
        u.append({'k': 'exitstatus', 'n': n})
    u.append({'k': 'nested'})
    for i in range(3 if tier == 'quick' else 9):
        u.append({'k': 'wide', 'i': i})
    for i in range(10 if tier == 'quick' else 200):
        u.append({'k': 'loop', 'i': i})
    for i in range(12 if tier == 'quick' else 120):
        u.append({'k': 'structural', 'i': i})
    # trees an order of magnitude larger and three times deeper, many offenders
    for i in range(6 if tier == 'quick' else 300):
        u.append({'k': 'gen', 'i': 100000 + i, 'n': 2, 'big': True})
    return u


def setup_worker(ctx):
    common.use_repo()
    logging.getLogger().setLevel(logging.CRITICAL)
    contracts.install_path_prefix(ctx)


def policy_fn(policy):
    def decide(path):
        if policy == 'false':
            return False
        if policy == 'true':
            return True
        if policy == 'none':
            return None
        h = hashlib.md5(path.encode('utf8', 'surrogatepass')).digest()[0]
        return [False, True, None][h % 3]
    return decide


class Recorder:
    def __init__(self, policy):
        self.decide = policy_fn(policy)
        self.calls = []
        self.returned = []

    def __call__(self, err):
        self.calls.append(err)
        r = self.decide(err.path)
        self.returned.append(r)
        return r


class LogCatcher(logging.Handler):
    def __init__(self):
        super().__init__(level=logging.ERROR)
        self.records = []

    def emit(self, record):
        self.records.append(record.msg)


def nfds():
    return len(os.listdir('/proc/self/fd'))


def judge(ctx, root, case):
    from gemato.exceptions import ManifestMismatch
    from gemato.recursiveloader import ManifestRecursiveLoader
    sub, policy, wseed = case['sub'], case['policy'], case['walk_seed']
    res = mmatch.match(root, 'Manifest', sub, None)
    if res.errors or res.chain or res.incompatible:
        ctx.discarded('not a keep-going case (chain/conflict/model error)')
        return
    if res.enotdir:
        ctx.unconstrained('entry beneath a path that is now a file (U11)')
        # the failing access may be raised as an OSError: still run for totality
    req = set(res.required)
    opt = set(res.optional)
    constrained = not res.unconstrained and not res.enotdir
    nontrivial = constrained and len(req) >= 2
    ctx.case(sig=('c07', tuple(sorted({v.split(':')[0] for v in res.required.values()})),
                  min(len(req), 6), policy, sub != ''),
             case=case, nontrivial=nontrivial, klass='n%d' % min(len(req), 12))
    if not constrained:
        ctx.unconstrained((res.unconstrained or ['enotdir'])[0][:50])
    rec = Recorder(policy)
    fd0 = nfds()
    perm = walkperm.WalkPermuter(wseed)
    detail = {'model': res.summary()}
    try:
        with perm:
            m = ManifestRecursiveLoader(os.path.join(root, 'Manifest'),
                                        verify_openpgp=False)
            ret = m.assert_directory_verifies(sub, fail_handler=rec)
    except Exception as exc:
        if constrained:
            ctx.violation('keep-going-raises:' + adapt.exc_key(exc),
                          'keep-going verification raised %r instead of reporting'
                          % (exc,), case, detail)
        return
    finally:
        ctx.count('walk_permuted', perm.yields)
    del m
    ctx.count('handler_calls', len(rec.calls))
    if nfds() > fd0:
        ctx.count('fd_growth_observed')
    reported = [e.path for e in rec.calls]
    detail['reported'] = reported
    if not all(isinstance(e, ManifestMismatch) for e in rec.calls):
        ctx.violation('handler-gets-non-mismatch', 'handler was passed something '
                      'other than a ManifestMismatch', case, detail)
    dup = sorted({p for p in reported if reported.count(p) > 1})
    if dup:
        ctx.violation('reported-twice', 'path(s) reported more than once: %r' % dup,
                      case, detail)
    outside = [p for p in reported if not mtext.comp_prefix(p, sub)]
    if outside:
        ctx.violation('reported-outside-subtree', 'handler called for %r outside the '
                      'verified sub-path %r' % (outside, sub), case, detail)
    if constrained:
        missing = sorted(req - set(reported))
        extra = sorted(set(reported) - req - opt)
        if missing:
            kinds = sorted({res.required[p].split(':')[0] for p in missing})
            ctx.violation('offender-not-reported:' + '+'.join(kinds),
                          '%d offending path(s) never reported: %r' % (
                              len(missing), missing[:4]), case, detail)
        if extra:
            ctx.violation('non-offender-reported', 'reported although not '
                          'offending: %r' % (extra[:4],), case, detail)
        # every non-ignored directory must have been walked
        seen = {os.path.relpath(d, root) if d != root else '' for d in perm.dirs}
        seen = {'' if d == '.' else d for d in seen}
        notwalked = [d for d in res.walked_dirs if d not in seen]
        if notwalked:
            ctx.violation('directory-not-scanned', 'directories never scanned: %r'
                          % (notwalked[:4],), case, detail)
    want_ret = not any(r is False for r in rec.returned)
    if bool(ret) != want_ret or not isinstance(ret, bool):
        ctx.violation('wrong-overall-result', 'overall result %r but handler returned '
                      '%r' % (ret, rec.returned[:8]), case, detail)
    # ---- CLI --keep-going
    if case.get('cli') and constrained:
        from gemato import cli as gcli
        catcher = LogCatcher()
        lg = logging.getLogger()
        lg.addHandler(catcher)
        old = lg.level
        lg.setLevel(logging.ERROR)
        try:
            with walkperm.WalkPermuter(wseed + 1):
                try:
                    rc = gcli.main(['gemato', 'verify', '-P', '-k',
                                    os.path.join(root, sub) if sub else root])
                except Exception as exc:
                    ctx.violation('cli-keep-going-raises:' + adapt.exc_key(exc),
                                  '`gemato verify -k` raised %r' % (exc,), case, detail)
                    return
        finally:
            lg.removeHandler(catcher)
            lg.setLevel(old)
        ctx.count('cli_runs')
        crep = [r.path for r in catcher.records if isinstance(r, ManifestMismatch)]
        detail['cli_reported'] = crep
        if sorted(crep) != sorted(set(crep)):
            ctx.violation('cli-reported-twice', 'CLI logged a path twice', case, detail)
        if not (req <= set(crep) <= req | opt):
            ctx.violation('cli-report-differs', '`verify -k` logged %r, offenders are '
                          '%r' % (sorted(crep)[:6], sorted(req)[:6]), case, detail)
        if (rc != 0) != bool(crep) or (req and rc == 0):
            ctx.violation('cli-exit-status', '`verify -k` exit status %r with %d '
                          'reported failure(s)' % (rc, len(crep)), case, detail)


def judge_multi(ctx, root, case):
    """`gemato verify -k P1 P2 ...`: exit status must reflect a failure in ANY path."""
    from gemato import cli as gcli
    from vf.model import findtop
    subs = case.get('multi')
    if not subs:
        return
    any_off = False
    for sub in subs:
        res = mmatch.match(root, 'Manifest', sub, None)
        if res.errors or res.chain or res.incompatible or res.unconstrained \
                or res.enotdir or res.optional:
            return
        if sub:
            ft = findtop.find_top(os.path.join(root, sub))
            if ft.unconstrained or {os.path.realpath(a) if a else a
                                    for a in ft.answers} != \
                    {os.path.realpath(os.path.join(root, 'Manifest'))}:
                return
        any_off = any_off or bool(res.required)
    try:
        rc = gcli.main(['gemato', 'verify', '-P', '-k'] +
                       [os.path.join(root, s) if s else root for s in subs])
    except Exception as exc:
        ctx.violation('cli-keep-going-raises:' + adapt.exc_key(exc),
                      '`gemato verify -k P1 P2..` raised %r' % (exc,), case)
        return
    ctx.count('cli_multi_runs')
    if (rc != 0) != any_off:
        ctx.violation('cli-exit-status-multi', '`verify -k` over paths %r exits %r '
                      'although %s path has offenders' % (
                          subs, rc, 'a' if any_off else 'no'), case)


def gen_case(rng, root, big=False):
    nmut = rng.choice([2, 3, 4, 5, 6, 8, 12])
    opts = {'max_dirs': 7, 'max_files': 16, 'p_ignore': 0.3}
    if big:
        nmut = rng.choice([5, 12, 25, 40])
        opts = {'max_dirs': 40, 'max_files': 150, 'depth': 12, 'p_ignore': 0.3}
    case, layout, info = scenario.build(rng, root, CLASSES, nmut, opts)
    dirs = scenario.existing_dirs(root)
    case['sub'] = '' if rng.random() < 0.65 else rng.choice(dirs)
    case['policy'] = rng.choice(POLICIES)
    case['walk_seed'] = rng.randrange(1 << 30)
    case['cli'] = rng.random() < 0.4 and case['sub'] == ''
    if rng.random() < 0.3 and len(dirs) >= 2:
        case['multi'] = [rng.choice(dirs) for _ in range(rng.randint(2, 3))]
    return case


def run_gen(u, ctx):
    for j in range(u['n']):
        rng = common.rng_for(ctx.seed, ID, u['i'], j)
        with common.Scratch('vf-c07-') as d:
            root = os.path.join(d, 't')
            try:
                case = gen_case(rng, root, big=bool(u.get('big')))
                if u.get('big'):
                    ctx.count('big_trees')
            except RuntimeError as exc:
                ctx.discarded('generator: %s' % exc)
                continue
            judge(ctx, root, case)
            judge_multi(ctx, root, case)
            if j == 0:
                ctx.sample({'mutations': case['mutations'], 'sub': case['sub'],
                            'policy': case['policy']}, 'gen')


def run_stress(u, ctx):
    """Many offenders with few file descriptors available."""
    from gemato.recursiveloader import ManifestRecursiveLoader
    rng = common.rng_for(ctx.seed, ID, 'stress', u['i'])
    exec_stress(ctx, rng.choice([90, 150, 260]),
                rng.choice(['stray', 'type', 'missing-mixed']))


def exec_stress(ctx, nstray, kind):
    from gemato.recursiveloader import ManifestRecursiveLoader
    with common.Scratch('vf-c07s-') as d:
        root = os.path.join(d, 't')
        os.makedirs(os.path.join(root, 'sub'))
        ents = []
        expect = set()
        for i in range(nstray):
            p = 'sub/f%03d' % i if i % 2 else 'g%03d' % i
            if kind == 'stray':
                with open(os.path.join(root, p), 'w') as f:
                    f.write('x')
                expect.add(p)
            elif kind == 'type':
                os.makedirs(os.path.join(root, p))
                ents.append(mtext.file_entry('DATA', p, b'x', ['MD5']))
                expect.add(p)
            else:
                with open(os.path.join(root, p), 'w') as f:
                    f.write('yy')
                ents.append(mtext.file_entry('DATA', p, b'x', ['MD5']))
                expect.add(p)
        with open(os.path.join(root, 'Manifest'), 'w') as f:
            f.write(mtext.render(ents))
        case = {'kind': 'stress', 'n': nstray, 'what': kind}
        ctx.case(sig=('stress', kind, nstray), case=case, klass='stress')
        ctx.count('stress_runs')
        soft, hard = resource.getrlimit(resource.RLIMIT_NOFILE)
        rec = Recorder('false')
        try:
            resource.setrlimit(resource.RLIMIT_NOFILE, (nfds() + 40, hard))
            try:
                m = ManifestRecursiveLoader(os.path.join(root, 'Manifest'),
                                            verify_openpgp=False)
                ret = m.assert_directory_verifies('', fail_handler=rec)
            finally:
                resource.setrlimit(resource.RLIMIT_NOFILE, (soft, hard))
        except Exception as exc:
            ctx.violation('stress-raises:' + adapt.exc_key(exc),
                          'with %d %s offenders and 40 spare file descriptors '
                          'keep-going verification raised %r after %d report(s)'
                          % (nstray, kind, exc, len(rec.calls)), case)
            return
        got = {e.path for e in rec.calls}
        if got != expect or len(rec.calls) != len(expect) or ret is not False:
            ctx.violation('stress-report-differs', 'reported %d of %d offenders'
                          % (len(got & expect), len(expect)), case)
        ctx.sample(case, 'stress')


def exec_wide(ctx, ndirs, which):
    """Many directories (more than any batch size the walker may hand around), one
    listed file each: all altered, or a single one at a given position of the walk."""
    from gemato.recursiveloader import ManifestRecursiveLoader
    with common.Scratch('vf-c07w-') as d:
        root = os.path.join(d, 't')
        ents = []
        names = ['d%03d' % i for i in range(ndirs)]
        for nm in names:
            os.makedirs(os.path.join(root, nm))
            with open(os.path.join(root, nm, 'f'), 'w') as f:
                f.write('good')
            ents.append(mtext.file_entry('DATA', nm + '/f', b'good', ['MD5']))
        with open(os.path.join(root, 'Manifest'), 'w') as f:
            f.write(mtext.render(ents))
        case = {'kind': 'wide', 'n': ndirs, 'which': which}
        ctx.case(sig=('wide', ndirs, which if which == 'all' else 'one'), case=case,
                 klass='wide')
        ctx.count('wide_runs')
        # the order in which this file system enumerates the directories
        order = [nm for nm in next(os.walk(root))[1]]
        bad = names if which == 'all' else [order[which % ndirs]]
        for nm in bad:
            with open(os.path.join(root, nm, 'f'), 'w') as f:
                f.write('evil')
        rec = Recorder('false')
        try:
            m = ManifestRecursiveLoader(os.path.join(root, 'Manifest'),
                                        verify_openpgp=False)
            ret = m.assert_directory_verifies('', fail_handler=rec)
        except Exception as exc:
            ctx.violation('wide-raises:' + adapt.exc_key(exc), 'keep-going verification '
                          'of %d directories raised %r' % (ndirs, exc), case)
            return
        got = sorted(e.path for e in rec.calls)
        want = sorted(nm + '/f' for nm in bad)
        if got != want or ret is not False:
            ctx.violation('offender-not-reported:wide-tree', 'tree of %d directories, %d '
                          'altered file(s): %d report(s), result %r; missing %r'
                          % (ndirs, len(want), len(got), ret,
                             sorted(set(want) - set(got))[:3]), case)


def run_wide(u, ctx):
    n = [70, 150, 300][u['i'] % 3]
    exec_wide(ctx, n, 'all')
    # (positions just behind multiples of the batch sizes a walker might use)
    for pos in (15, 16, 17, 31, 32, 63, 64, 65, 127, 128, 129, 130, 255, 256):
        if pos < n:
            exec_wide(ctx, n, pos)


def run_nested(u, ctx):
    """`gemato verify -k OUTER INNER` where verifying OUTER does not cover INNER (a
    hidden directory; an IGNOREd directory that is a tree of its own): the exit status
    is that of the single-path runs taken together."""
    from gemato import cli as gcli
    with common.Scratch('vf-c07n-') as d:
        root = os.path.join(d, 't')
        os.makedirs(os.path.join(root, '.hid'))
        os.makedirs(os.path.join(root, 'ign', 'deep'))
        os.makedirs(os.path.join(root, 'plain'))
        for pth, data in (('a', b'1'), ('.hid/stray', b'2'), ('ign/f', b'3'),
                          ('ign/deep/g', b'4'), ('plain/p', b'5')):
            with open(os.path.join(root, pth), 'wb') as f:
                f.write(data)
        with open(os.path.join(root, 'Manifest'), 'w') as f:
            f.write(mtext.render([mtext.file_entry('DATA', 'a', b'1', ['SHA1']),
                                  mtext.file_entry('DATA', 'plain/p', b'5', ['SHA1']),
                                  {'tag': 'IGNORE', 'path': 'ign'}]))
        # the ignored directory is a tree of its own, with an altered file
        with open(os.path.join(root, 'ign', 'Manifest'), 'w') as f:
            f.write(mtext.render([mtext.file_entry('DATA', 'f', b'3', ['SHA1']),
                                  mtext.file_entry('DATA', 'deep/g', b'other', ['SHA1'])]))

        def run(paths):
            try:
                return gcli.main(['gemato', 'verify', '-P', '-k'] +
                                 [os.path.join(root, p) if p else root for p in paths])
            except SystemExit:
                return 'exit'
            except Exception as exc:
                return exc
        single = {p: run([p]) for p in ('', '.hid', 'ign', 'ign/deep', 'plain')}
        for paths in (['', '.hid'], ['.hid', ''], ['', 'ign'], ['ign', ''],
                      ['', 'plain', 'ign/deep'], ['', ''], ['plain', 'plain', '.hid'],
                      ['ign', 'ign/deep'], ['', 'plain']):
            case = {'kind': 'nested', 'paths': paths}
            ctx.case(sig=('nested', tuple(paths)), case=case, klass='nested')
            ctx.count('cli_nested_runs')
            rc = run(paths)
            want_fail = any(single[p] != 0 for p in paths)
            if isinstance(rc, Exception):
                ctx.violation('cli-keep-going-raises:' + adapt.exc_key(rc),
                              '`gemato verify -k %s` raised %r' % (' '.join(paths), rc),
                              case)
            elif (rc != 0) != want_fail:
                ctx.violation('cli-exit-status-multi:nested', '`verify -k` over %r exits '
                              '%r, the single-path runs exit %r' % (
                                  paths, rc, [single[p] for p in paths]), case)


def run_exitstatus(u, ctx):
    """`gemato verify -k` as a real process: whatever the number of offending paths,
    the exit status the shell sees is non-zero (an exit status is taken modulo 256)."""
    import subprocess
    import sys
    n = u['n']
    with common.Scratch('vf-c07e-') as d:
        root = os.path.join(d, 't')
        os.makedirs(root)
        for i in range(n):
            with open(os.path.join(root, 'stray%04d' % i), 'w') as f:
                f.write('x')
        with open(os.path.join(root, 'Manifest'), 'w') as f:
            f.write('')
        case = {'kind': 'exitstatus', 'n': n}
        ctx.case(sig=('exitstatus', n), case=case, klass='exitstatus')
        ctx.count('process_exit_statuses')
        code = ('import sys; sys.path.insert(0, %r); sys.argv = %r; '
                'from gemato.cli import setuptools_main; setuptools_main()'
                % (common.REPO, ['gemato', 'verify', '-k', root]))
        try:
            r = subprocess.run([sys.executable, '-c', code], capture_output=True,
                               timeout=600)
        except subprocess.TimeoutExpired:
            ctx.discarded('verify -k of %d strays did not finish in 600 s' % n)
            return
        nrep = r.stderr.count(b'stray')
        if r.returncode == 0:
            ctx.violation('process-exit-status-0', '`gemato verify -k` on a tree with %d '
                          'offending paths (%d log lines naming one) ended with exit '
                          'status 0' % (n, nrep), case)
        ctx.sample(case, 'exitstatus')


def run_loop(u, ctx):
    """A symlink loop must still be raised under a lenient handler."""
    from gemato.exceptions import ManifestSymlinkLoop
    from gemato.recursiveloader import ManifestRecursiveLoader
    rng = common.rng_for(ctx.seed, ID, 'loop', u['i'])
    exec_loop(ctx, rng.sample(['a', 'b', 'c', 'm', 'z'], 3), rng.choice(POLICIES),
              rng.randrange(1 << 30))


def exec_loop(ctx, names, policy, walk_seed):
    from gemato.exceptions import ManifestSymlinkLoop
    from gemato.recursiveloader import ManifestRecursiveLoader
    with common.Scratch('vf-c07l-') as d:
        root = os.path.join(d, 't')
        ents = []
        for nm in names:
            os.makedirs(os.path.join(root, nm, 'in'))
            with open(os.path.join(root, nm, 'in', 'f'), 'w') as f:
                f.write(nm)
            ents.append(mtext.file_entry('DATA', nm + '/in/f', nm.encode(), ['SHA1']))
        # discrepancies in other directories: one stray, one altered
        with open(os.path.join(root, names[0], 'stray'), 'w') as f:
            f.write('s')
        with open(os.path.join(root, names[1], 'in', 'f'), 'w') as f:
            f.write('ALTERED')
        loopdir = names[2]
        os.symlink('..', os.path.join(root, loopdir, 'in', 'up'))
        with open(os.path.join(root, 'Manifest'), 'w') as f:
            f.write(mtext.render(ents))
        case = {'kind': 'loop', 'names': names, 'policy': policy,
                'walk_seed': walk_seed}
        ctx.case(sig=('loop', policy), case=case, klass='loop')
        ctx.count('loop_runs')
        rec = Recorder(policy)
        old_cwd = os.getcwd()
        try:
            with walkperm.WalkPermuter(case['walk_seed'], budget=2000):
                if walk_seed % 2:
                    # from inside the tree, by the relative name ./Manifest
                    os.chdir(root)
                    m = ManifestRecursiveLoader('./Manifest', verify_openpgp=False)
                    ctx.count('loop_runs_relative_root')
                else:
                    m = ManifestRecursiveLoader(os.path.join(root, 'Manifest'),
                                                verify_openpgp=False)
                ret = m.assert_directory_verifies('', fail_handler=rec)
        except ManifestSymlinkLoop:
            return
        except walkperm.BudgetExceeded:
            ctx.violation('loop-not-terminating', 'walk exceeded 2000 directory '
                          'steps on a 7-directory tree', case)
            return
        except Exception as exc:
            ctx.violation('loop-raises:' + adapt.exc_key(exc), 'symlink loop under a '
                          'lenient handler raised %r' % (exc,), case)
            return
        finally:
            os.chdir(old_cwd)
        ctx.violation('loop-not-raised', 'a symlink loop was not raised in keep-going '
                      'mode (handler policy %s, result %r, %d reports)'
                      % (policy, ret, len(rec.calls)), case)


def exec_structural_cli(ctx, what, order, walk_seed):
    """`gemato verify --keep-going` on a tree with a structural problem (symlink
    loop, conflicting duplicate entries, a directory on another file system with
    -x), alone and next to a clean tree on the same command line: the exit status
    must not be 0."""
    import logging
    from gemato import cli as gcli
    with common.Scratch('vf-c07s-') as d:
        bad, good = os.path.join(d, 'bad'), os.path.join(d, 'good')
        for r in (bad, good):
            os.makedirs(os.path.join(r, 'sub', 'in'))
            with open(os.path.join(r, 'sub', 'in', 'f'), 'w') as f:
                f.write('data')
            with open(os.path.join(r, 'Manifest'), 'w') as f:
                f.write(mtext.render([mtext.file_entry('DATA', 'sub/in/f', b'data',
                                                       ['SHA1'])]))
        extra = []
        if what == 'loop':
            os.symlink('..', os.path.join(bad, 'sub', 'in', 'up'))
        elif what == 'incompatible':
            with open(os.path.join(bad, 'Manifest'), 'a') as f:
                f.write('DATA sub/in/f 5 SHA1 %s\n' % ('0' * 40))
        else:
            other = '/dev/shm' if os.path.isdir('/dev/shm') and os.stat(
                '/dev/shm').st_dev != os.stat(bad).st_dev else None
            if other is None:
                ctx.count('structural_xdev_unavailable')
                return
            tgt = os.path.join(other, 'vf-c07-x-%d' % os.getpid())
            os.makedirs(tgt, exist_ok=True)
            with open(os.path.join(tgt, 'g'), 'w') as f:
                f.write('g')
            if what == 'xdev-hidden':
                # the foreign directory hangs under a hidden name, which the walk does
                # not enter; a (matching) listed file inside it is verified all the
                # same - and lies on another file system
                os.symlink(tgt, os.path.join(bad, 'sub', '.far'))
                with open(os.path.join(bad, 'Manifest'), 'a') as f:
                    f.write(mtext.render([mtext.file_entry('DATA', 'sub/.far/g', b'g',
                                                           ['SHA1'])]))
                ctx.count('structural_xdev_hidden_runs')
            else:
                os.symlink(tgt, os.path.join(bad, 'sub', 'far'))
            extra = ['-x']
        try:
            case = {'kind': 'structural', 'what': what, 'order': order,
                    'walk_seed': walk_seed}
            ctx.case(sig=('structural', what, order), case=case, klass='structural')
            ctx.count('structural_cli_runs')
            paths = {'alone': [bad], 'first': [bad, good], 'last': [good, bad]}[order]
            logging.getLogger().setLevel(logging.CRITICAL)
            try:
                with walkperm.WalkPermuter(walk_seed, budget=2000):
                    try:
                        rc = gcli.main(['gemato', 'verify', '-P', '-k'] + extra + paths)
                    except SystemExit as exc:
                        rc = exc.code
            except walkperm.BudgetExceeded:
                ctx.violation('loop-not-terminating', 'CLI walk exceeded 2000 steps', case)
                return
            except Exception as exc:
                ctx.violation('structural-cli-raises:' + adapt.exc_key(exc),
                              '`verify -k` let %r escape' % (exc,), case)
                return
            # ... and through the library with a handler that tolerates everything: the
            # structural error itself must still be raised
            from gemato.exceptions import (ManifestCrossDevice, ManifestIncompatibleEntry,
                                           ManifestSymlinkLoop)
            from gemato.recursiveloader import ManifestRecursiveLoader
            want = {'loop': ManifestSymlinkLoop, 'incompatible': ManifestIncompatibleEntry,
                    'xdev': ManifestCrossDevice, 'xdev-hidden': ManifestCrossDevice}[what]
            if not what.startswith('xdev') or extra:
                try:
                    with walkperm.WalkPermuter(walk_seed + 1, budget=2000):
                        m = ManifestRecursiveLoader(os.path.join(bad, 'Manifest'),
                                                    verify_openpgp=False,
                                                    allow_xdev=not what.startswith(
                                                        'xdev'))
                        r = m.assert_directory_verifies('', fail_handler=lambda e: True)
                    ctx.violation('structural-problem-not-raised:' + what, 'with a handler '
                                  'that tolerates every report the verification of a tree '
                                  'with a %s returned %r instead of raising %s'
                                  % (what, r, want.__name__), case)
                    return
                except want:
                    ctx.count('structural_lib_raised')
                except Exception as exc:
                    ctx.violation('structural-lib-raises:' + adapt.exc_key(exc),
                                  'expected %s, got %r' % (want.__name__, exc), case)
                    return
            if rc == 0:
                ctx.violation('structural-problem-exit-0:' + what, '`gemato verify -k%s %s` '
                              'exits 0 although the tree has a %s' % (
                                  ' -x' if extra else '', ' '.join(
                                      os.path.basename(p) for p in paths), what), case)
        finally:
            if what.startswith('xdev') and extra:
                common.rmtree(tgt)


def run_structural(u, ctx):
    rng = common.rng_for(ctx.seed, ID, 'structural', u['i'])
    exec_structural_cli(ctx, ['loop', 'incompatible', 'xdev', 'xdev-hidden'][u['i'] % 4],
                        ['alone', 'first', 'last'][(u['i'] // 4) % 3],
                        rng.randrange(1 << 30))


def run_unit(u, ctx):
    {'gen': run_gen, 'stress': run_stress, 'loop': run_loop, 'wide': run_wide,
     'structural': run_structural, 'exitstatus': run_exitstatus,
     'nested': run_nested}[u['k']](u, ctx)


def replay(case, ctx):
    if case.get('kind') == 'stress':
        exec_stress(ctx, case['n'], case['what'])
        return
    if case.get('kind') == 'exitstatus':
        run_exitstatus({'n': case['n']}, ctx)
        return
    if case.get('kind') == 'wide':
        exec_wide(ctx, case['n'], case['which'])
        return
    if case.get('kind') == 'nested':
        run_nested({}, ctx)
        return
    if case.get('kind') == 'loop':
        exec_loop(ctx, case['names'], case['policy'], case['walk_seed'])
        return
    if case.get('kind') == 'structural':
        exec_structural_cli(ctx, case['what'], case['order'], case['walk_seed'])
        return
    with common.Scratch('vf-c07-') as d:
        root = os.path.join(d, 't')
        scenario.rebuild(root, case)
        judge(ctx, root, case)
        judge_multi(ctx, root, case)
