"""C04 part (b): differential against real gpg on textual mutants of Manifests
genuinely clear-signed by gpg.  Oracle: `gpg --decrypt` of the same bytes."""
import atexit
import io
import os

from vf import adapt, common
from vf.fixtures import keys
from vf.gen import mtextgen
from vf.model import cleartext, mtext
from vf.mon import gpgenv

_home = None


def home():
    global _home
    if _home is None:
        _home = gpgenv.Home(direct_trust=True)
        _home.import_key(keys.PRIVATE_KEY)
        _home.set_trust(keys.KEY_FINGERPRINT, 6)
        atexit.register(_home.close)
    return _home


def base_manifest(rng):
    ents = []
    for _ in range(rng.randint(1, 6)):
        ents.append(mtextgen.rand_entry(rng, hostile=rng.choice([0, 0.3])))
    text = mtext.render(ents)
    if rng.random() < 0.3:
        # blank lines and a line that needs dash-escaping cannot occur in a
        # Manifest gemato wrote, but a signer may sign anything
        lines = text.split('\n')
        lines.insert(rng.randrange(len(lines)), '')
        text = '\n'.join(lines)
    if rng.random() < 0.1:
        # ... or a junk line that itself starts with "- " (it appears as "- - ..." in
        # the signed file; exactly one level of dash-escaping is undone)
        lines = text.split('\n')
        lines.insert(rng.randrange(len(lines)), rng.choice(
            ['- DATA evil 0', '- - DATA evil 0', '- IGNORE x']))
        text = '\n'.join(lines)
    if rng.random() < 0.15:
        # a signer may also sign odd lines: an exotic line-break character
        # followed by something that looks like an entry
        lines = text.split('\n')
        k = rng.randrange(len(lines))
        lines[k] = lines[k] + rng.choice(UBREAKS) + 'DATA evil 0'
        text = '\n'.join(lines)
    return text


MUTATIONS = ['insert', 'delete', 'dup', 'move', 'trail', 'inner', 'crlf', 'dash+',
             'dash-', 'concat', 'nul', 'long', 'flip', 'outside', 'header', 'case',
             'sepws', 'sepnul', 'hdr-after', 'hdr-after', 'ubreak', 'none', 'longtail',
             'longtail']

UBREAKS = ['\x0b', '\x0c', '\x1c', '\x1d', '\x1e', '\x85', '\u2028', '\u2029']


def mutate(rng, signed, other_signed):
    lines = signed.split('\n')
    op = rng.choice(MUTATIONS)
    n = len(lines)
    i = rng.randrange(n)
    try:
        sigstart = lines.index(cleartext.SIGBEGIN)
    except ValueError:
        sigstart = n
    body_idx = list(range(3, sigstart)) or [0]
    if op == 'insert':
        lines.insert(i, rng.choice(['DATA evil 0', 'IGNORE x', '', 'junk',
                                    'Hash: SHA512', '- DATA evil2 0',
                                    cleartext.SIGBEGIN, cleartext.SIGEND,
                                    cleartext.BEGIN, 'DIST evil.tar 1 SHA1 ff']))
    elif op == 'delete':
        del lines[i]
    elif op == 'dup':
        lines.insert(i, lines[i])
    elif op == 'move':
        j = rng.randrange(n)
        ln = lines.pop(i)
        lines.insert(min(j, len(lines)), ln)
    elif op == 'trail':
        lines[i] += rng.choice([' ', '\t', '\r', '  \t', ' \r'])
    elif op == 'inner':
        b = rng.choice(body_idx)
        if ' ' in lines[b]:
            lines[b] = lines[b].replace(' ', rng.choice(['  ', '\t', ' \t ']), 1)
    elif op == 'crlf':
        lines = [ln + '\r' if ln is not lines[-1] else ln for ln in lines]
    elif op == 'dash+':
        b = rng.choice(body_idx)
        lines[b] = '- ' + lines[b]
    elif op == 'dash-':
        cands = [k for k in body_idx if lines[k].startswith('- ')]
        if cands:
            b = rng.choice(cands)
            lines[b] = lines[b][2:]
        else:
            b = rng.choice(body_idx)
            lines[b] = '-' + lines[b]
    elif op == 'concat':
        lines = lines + other_signed.split('\n')
    elif op == 'nul':
        b = rng.choice(body_idx)
        k = rng.randrange(len(lines[b]) + 1)
        lines[b] = lines[b][:k] + '\x00' + lines[b][k:]
    elif op == 'long':
        lines.insert(i, 'DATA ' + 'a' * 20000 + ' 0')
    elif op == 'flip':
        b = rng.choice(body_idx)
        if lines[b]:
            k = rng.randrange(len(lines[b]))
            c = lines[b][k]
            lines[b] = lines[b][:k] + ('1' if c != '1' else '2') + lines[b][k + 1:]
    elif op == 'outside':
        extra = rng.choice(['DATA evil 0', 'IGNORE sub', 'junk', ' ', ''])
        if rng.random() < 0.5:
            lines.insert(0, extra)
        else:
            lines.append(extra)
            lines.append('')
    elif op == 'header':
        lines.insert(1, rng.choice(['Hash: SHA512', 'Comment: DATA evil 0',
                                    'NotDashEscaped: 1', 'Hash: SHA256',
                                    'Charset: utf-8', 'DATA evil 0']))
    elif op == 'case':
        k = rng.choice([0, sigstart if sigstart < n else 0])
        lines[k] = lines[k].lower()
    elif op == 'ubreak':
        # characters str.splitlines() treats as line breaks but OpenPGP does not
        k = rng.randrange(1, max(2, sigstart))
        pos = rng.randrange(len(lines[k]) + 1)
        ins = rng.choice(UBREAKS) * rng.choice([1, 2])
        if rng.random() < 0.5:
            ins += 'DATA evil 0'
        lines[k] = lines[k][:pos] + ins + lines[k][pos:]
    elif op == 'longtail':
        # GnuPG reads cleartext in lines of at most ~20000 bytes: what lies beyond
        # is not hashed.  Pad a signed line with blanks (not hashed either, as
        # trailing white space) and append something behind the limit
        b = rng.choice(body_idx)
        toks = lines[b].split()
        tails = ['x', 'SHA1 ' + 'ab' * 20, 'MD5 ' + 'cd' * 16,
                 # (a complete entry: a reader that takes the long line in pieces
                 # would see it as a line of its own)
                 'DATA evil.sh 0', 'DATA evil.sh 0 MD5 ' + 'd4' * 16,
                 'IGNORE evil-dir']
        if len(toks) > 4:
            tails += ['%s %s' % (toks[-2], 'e' * len(toks[-1]))] * 3
        total = rng.choice([19990, 19993, 19994, 19996, 20001, 20004, 20010, 25000,
                            40000, 70000, 8192 * 3, 8192 * 3 - 14, 65536 + 1, 32768])
        pad = max(1, total - len(lines[b].encode('utf8')))
        lines[b] = lines[b] + rng.choice([' ', '\t']) * pad + rng.choice(tails)
    elif op == 'sepws':
        # whitespace on the header/body separator line
        for k in range(1, min(4, n)):
            if lines[k] == '':
                lines[k] = rng.choice([' ', '\t', '\r'])
                break
    elif op == 'hdr-after':
        # armor headers are not signed: repeat the Hash header after the others, or
        # put the headers in the opposite order
        try:
            end = lines.index('', 1)
        except ValueError:
            end = 1
        hdrs = lines[1:end]
        if hdrs:
            if rng.random() < 0.5:
                hs = [h for h in hdrs if h.startswith('Hash:')] or ['Hash: SHA256']
                lines.insert(end, hs[0])
            else:
                lines[1:end] = list(reversed(hdrs))
    elif op == 'sepnul':
        # NUL bytes on the separator line / on an armor header line (gpg takes a
        # line holding only NULs for an empty one)
        for k in range(1, min(4, n)):
            if lines[k] == '':
                if rng.random() < 0.6:
                    lines[k] = rng.choice(['\x00', '\x00\x00', '\x00 '])
                else:
                    lines[k - 1] += '\x00'
                break
    return op, '\n'.join(lines)


def judge(ctx, text, case, original=False):
    from gemato.manifest import ManifestFile
    from gemato.exceptions import GematoException
    from gemato.openpgp import SystemGPGEnvironment
    h = home()
    os.environ['GNUPGHOME'] = h.dir
    env = SystemGPGEnvironment()
    m = ManifestFile()
    reused = False
    if case.get('reuse') and not original:
        # history on one ManifestFile object: a genuinely signed Manifest was loaded
        # into it before (load() may be called again after a failure)
        try:
            m.load(io.StringIO(case['reuse']), verify_openpgp=True, openpgp_env=env)
            reused = m.openpgp_signed
        except GematoException:
            m = ManifestFile()
    try:
        m.load(io.StringIO(text), verify_openpgp=True, openpgp_env=env)
    except GematoException as exc:
        ctx.count('gpg:rejected')
        if reused:
            ctx.count('gpg:rejected-on-reused-object')
            if m.openpgp_signed or m.openpgp_signature is not None:
                ctx.violation('signed-state-after-failed-load', 'a ManifestFile that '
                              'held a verified Manifest still reports openpgp_signed=%r '
                              '/ signature data after loading a rejected text into it '
                              '(%d entries held)' % (m.openpgp_signed, len(m.entries)),
                              case)
                return
        if original:
            ctx.violation('rejects-genuine:' + type(exc).__name__,
                          'a Manifest genuinely signed by gpg is rejected: %s' % exc,
                          case)
        return
    except Exception as exc:
        ctx.violation('gpg-load-raises:' + adapt.exc_key(exc),
                      'loading a mutated signed Manifest raised %r' % (exc,), case)
        return
    finally:
        os.environ.pop('GNUPGHOME', None)
    got = [adapt.norm_gemato(e) for e in m.entries]
    if not m.openpgp_signed:
        ctx.count('gpg:accepted-unsigned')
        # no signature block recognised: then nothing of a signed message may be
        # present at all
        if cleartext.BEGIN in text.split('\n'):
            ctx.violation('signed-block-read-as-plain', 'text containing a signed-'
                          'message header loaded as an unsigned Manifest', case,
                          {'entries': got})
        return
    ctx.count('gpg:accepted')
    rc, clear, status = h.decrypt(text.encode('utf8'))
    if rc != 0:
        ctx.violation('accepted-but-gpg-rejects', 'verified load succeeded but '
                      '`gpg --decrypt` of the same bytes exits %d' % rc, case,
                      {'status': status[-800:], 'entries': got})
        return
    try:
        want = [adapt.norm_model(e) for e in mtext.parse(clear.decode('utf8'))]
    except (mtext.ReadError, UnicodeDecodeError) as exc:
        ctx.violation('accepted-unparsable-cleartext', 'verified load succeeded but '
                      'the cleartext gpg authenticated is not a Manifest: %s' % exc,
                      case, {'clear': repr(clear[:500]), 'entries': got})
        return
    if got != want:
        ctx.violation('entries-differ-from-authenticated',
                      'entries differ from the cleartext gpg authenticated', case,
                      {'got': got, 'want': want})


def run_subsigned(u, ctx):
    """A sub-Manifest that carries a cleartext signature of its own and is loaded
    through a MANIFEST entry of its parent: with verification on, its text goes through
    the OpenPGP check like any other signed Manifest (a forged one is refused, however
    well the parent's entry matches the forged bytes)."""
    import hashlib
    from gemato.exceptions import GematoException
    from gemato.openpgp import SystemGPGEnvironment
    from gemato.recursiveloader import ManifestRecursiveLoader
    h = home()
    for variant in ('valid', 'tampered-entry', 'added-line', 'foreign-text'):
        with common.Scratch('vf-c04s-') as d:
            root = os.path.join(d, 't')
            os.makedirs(os.path.join(root, 'sub'))
            good, evil = b'good content', b'evil content'
            body = mtext.render([mtext.file_entry('DATA', 'f', good, ['SHA256'])])
            signed = h.clearsign(body)
            data = good
            if variant == 'tampered-entry':
                signed = signed.replace(hashlib.sha256(good).hexdigest(),
                                        hashlib.sha256(evil).hexdigest())
                data = evil
            elif variant == 'added-line':
                signed = signed.replace('DATA f ', 'IGNORE g\nDATA f ', 1)
            elif variant == 'foreign-text':
                other = h.clearsign('IGNORE z\n')
                # the signature block of another message under this text
                signed = signed[:signed.index(cleartext.SIGBEGIN)] + \
                    other[other.index(cleartext.SIGBEGIN):]
            with open(os.path.join(root, 'sub', 'f'), 'wb') as f:
                f.write(data)
            sb = signed.encode('utf8')
            with open(os.path.join(root, 'sub', 'Manifest'), 'wb') as f:
                f.write(sb)
            with open(os.path.join(root, 'Manifest'), 'w') as f:
                f.write(mtext.render([mtext.file_entry('MANIFEST', 'sub/Manifest', sb,
                                                       ['SHA256'])]))
            case = {'kind': 'subsigned', 'variant': variant}
            ctx.case(sig=('subsigned', variant), case=case, nontrivial=True,
                     klass='subsigned')
            ctx.count('gpg:subsigned_cases')
            old_home = os.environ.get('GNUPGHOME')
            os.environ['GNUPGHOME'] = h.dir
            try:
                try:
                    m = ManifestRecursiveLoader(os.path.join(root, 'Manifest'),
                                                verify_openpgp=True,
                                                openpgp_env=SystemGPGEnvironment())
                    res = ('ret', m.assert_directory_verifies(''))
                except GematoException as exc:
                    res = ('gexc', exc)
                except Exception as exc:
                    res = ('exc', exc)
            finally:
                if old_home is None:
                    os.environ.pop('GNUPGHOME', None)
                else:
                    os.environ['GNUPGHOME'] = old_home
            if variant == 'valid':
                if res[0] != 'ret' or res[1] is not True:
                    ctx.violation('valid-signed-sub-manifest-refused', 'a tree whose '
                                  'sub-Manifest carries a valid signature -> %r' % (res,),
                                  case)
            elif res[0] == 'ret':
                ctx.violation('forged-signed-sub-manifest-accepted', 'sub-Manifest with '
                              'a cleartext signature that does not match its text (%s) '
                              'was used: verification returned %r' % (variant, res[1]),
                              case)
            elif res[0] == 'exc':
                ctx.violation('load-raises:' + adapt.exc_key(res[1]), 'raised %r'
                              % (res[1],), case)


def run_longline(u, ctx):
    """The boundary of what GnuPG covers of one cleartext line, approached byte by
    byte, on lines that hold multi-byte characters (a limit counted in characters is
    not the limit counted in bytes) and on pure ASCII lines."""
    h = home()
    names = ['plain-name.txt', '\u4e2d\u6587' * 20 + '.txt', 'caf\xe9-' + '\xe9' * 30,
             '\U0001f600' * 12]
    name = names[u['i'] % len(names)]
    line = 'DATA %s 0 SHA1 %s' % (name, 'da39a3ee5e6b4b0d3255bfef95601890afd80709')
    base = 'TIMESTAMP 2017-10-22T18:06:41Z\n' + line + '\nIGNORE x\n'
    try:
        signed = h.clearsign(base)
    except RuntimeError as exc:
        ctx.count('harness_error')
        return
    nbytes = len(line.encode('utf8'))
    for total in list(range(19985, 20012)) + [20100, 30000, 65536]:
        for tail in ('x', 'SHA1 ' + 'ab' * 20, 'MD5 ' + 'cd' * 16):
            forged = signed.replace(line + '\n',
                                    line + ' ' * (total - nbytes) + tail + '\n')
            case = {'kind': 'gpgtext', 'text': forged, 'op': 'longline',
                    'total': total, 'name': u['i'] % len(names)}
            ctx.case(sig=('gpg', 'longline', u['i'] % len(names), total > 19993),
                     case=case, nontrivial=True, klass='gpg-longline')
            ctx.count('longline_cases')
            judge(ctx, forged, case)


def run(u, ctx):
    h = home()
    for j in range(u['n']):
        rng = common.rng_for(ctx.seed, 'C04', 'gpg', u['i'], j)
        if j % 10 == 0:
            base = base_manifest(rng)
            other = base_manifest(rng)
            nde = rng.random() < 0.12
            if nde:
                # a signer may use --not-dash-escaped: then "- " at the start of a
                # line is literal content of the authenticated cleartext
                lines = base.split('\n')
                lines.insert(rng.randrange(len(lines)), '- DATA evil 0')
                base = '\n'.join(lines)
            try:
                signed = h.clearsign(base, extra=['--not-dash-escaped'] if nde else ())
                signed2 = h.clearsign(other)
            except RuntimeError as exc:
                ctx.count('harness_error')
                ctx.extra.setdefault('harness_errors', []).append(str(exc)[:300])
                return
            from vf.model import classify
            valid = classify.classify_text(base)[0] == classify.ACCEPT
            case = {'kind': 'gpgtext', 'text': signed,
                    'op': 'original' if valid else 'original-odd'}
            ctx.case(sig=('gpg', case['op']), case=case, nontrivial=True,
                     klass='gpg-' + case['op'])
            judge(ctx, signed, case, original=valid)
        op, text = mutate(rng, signed, signed2)
        case = {'kind': 'gpgtext', 'text': text, 'op': op}
        if j % 3 == 1 and valid:
            case['reuse'] = signed
        ctx.case(sig=('gpg', op), case=case, nontrivial=(text != signed),
                 klass='gpg-' + op)
        judge(ctx, text, case)
        ctx.sample({'kind': 'gpgtext', 'op': op, 'text': text[:400]}, 'gpg-' + op)


def replay(case, ctx):
    judge(ctx, case['text'], case, original=(case.get('op') == 'original'))


def run_resign(u, ctx):
    """A tree whose signed top-level Manifest was tampered with is updated with
    signing requested (`gemato update --sign`, or a loader with sign_openpgp=True and
    everything else left to its default): the forged text must be rejected, not
    taken over and signed again with the maintainer's key."""
    import logging
    from gemato.exceptions import GematoException
    from gemato.recursiveloader import ManifestRecursiveLoader
    h = home()
    rng = common.rng_for(ctx.seed, 'C04', 'resign', u['i'])
    da, db = rng.randbytes(20), rng.randbytes(30)
    body = mtext.render([mtext.file_entry('DATA', 'a', da, ['SHA256']),
                         mtext.file_entry('DATA', 'b', db, ['SHA256'])])
    signed = h.clearsign(body)
    how = ['inject-ignore', 'change-digest', 'drop-line'][u['i'] % 3]
    lines = signed.split('\n')
    k = lines.index('') + 1         # first line of the signed text
    if how == 'inject-ignore':
        lines.insert(k, 'IGNORE b')
    elif how == 'change-digest':
        lines[k] = lines[k][:-1] + ('0' if lines[k][-1] != '0' else '1')
    else:
        del lines[k + 1]
    forged = '\n'.join(lines)
    api = ['cli', 'lib'][(u['i'] // 3) % 2]
    case = {'kind': 'resign', 'how': how, 'api': api, 'i': u['i']}
    ctx.case(sig=('resign', how, api), case=case, klass='gpg-resign')
    ctx.count('gpg:resign_cases')
    logging.getLogger().setLevel(logging.CRITICAL)
    with common.Scratch('vf-c04s-') as d:
        root = os.path.join(d, 't')
        os.makedirs(root)
        for nm, data in (('a', da), ('b', db if how != 'change-digest' else db)):
            with open(os.path.join(root, nm), 'wb') as f:
                f.write(data)
        with open(os.path.join(root, 'b'), 'wb') as f:
            f.write(b'replaced payload')
        top = os.path.join(root, 'Manifest')
        with open(top, 'w') as f:
            f.write(forged)
        os.environ['GNUPGHOME'] = h.dir
        try:
            if api == 'cli':
                from gemato import cli as gcli
                try:
                    rc = gcli.main(['gemato', 'update', '--hashes', 'SHA256', '--sign',
                                    '--openpgp-id', keys.KEY_ID, root])
                except SystemExit as exc:
                    rc = exc.code
                accepted = rc == 0
            else:
                try:
                    from gemato.openpgp import SystemGPGEnvironment
                    m = ManifestRecursiveLoader(top, sign_openpgp=True,
                                                openpgp_keyid=keys.KEY_ID,
                                                openpgp_env=SystemGPGEnvironment(),
                                                hashes=['SHA256'])
                    m.update_entries_for_directory('')
                    m.save_manifests()
                    accepted = True
                except GematoException:
                    accepted = False
        except Exception as exc:
            ctx.violation('gpg-load-raises:' + adapt.exc_key(exc), 'update --sign on a '
                          'forged signed Manifest raised %r' % (exc,), case)
            return
        finally:
            os.environ.pop('GNUPGHOME', None)
        with open(top) as f:
            now = f.read()
        if accepted or now != forged:
            ctx.violation('forged-manifest-resigned', 'a signed top-level Manifest with a '
                          'tampered cleartext (%s) was accepted by an update with signing '
                          'requested (%s)%s' % (how, api, '; the Manifest was rewritten'
                                                if now != forged else ''), case)


FILE_PREFIXES = [b'\xef\xbb\xbf', b'\xef\xbb\xbf\n', b'\xef\xbb\xbf\n\n', b'\xef\xbb\xbf ',
                 b'\xe2\x80\x8b', b'\xc2\xa0x\n', b'\xef\xbb\xbf\xef\xbb\xbf', b'\x00\n']


INSIDE_BYTES = [b'\xff', b'\xc3', b'\xed\xa0\x80', b'\xc0\xaf', b'\xfe\xff', b'\x80']


def run_filejunk(u, ctx):
    """The signed top-level Manifest as a FILE (read through the loader's own
    open/decoding path) with non-blank bytes in front of, or behind, the signed
    block - byte-order marks and other invisible characters included."""
    import logging
    from gemato.exceptions import GematoException
    from gemato.openpgp import SystemGPGEnvironment
    from gemato.recursiveloader import ManifestRecursiveLoader
    h = home()
    rng = common.rng_for(ctx.seed, 'C04', 'filejunk', u['i'])
    data = rng.randbytes(10)
    signed = h.clearsign(mtext.render([mtext.file_entry('DATA', 'a', data, ['SHA256'])]))
    junk = FILE_PREFIXES[u['i'] % len(FILE_PREFIXES)]
    where = ['before', 'after'][(u['i'] // len(FILE_PREFIXES)) % 2]
    api = ['lib', 'cli'][(u['i'] // (2 * len(FILE_PREFIXES))) % 2]
    raw = junk + signed.encode() if where == 'before' else signed.encode() + junk
    if u.get('inside'):
        # bytes that are not UTF-8 inside the signed text (in the path of the entry):
        # whatever the decoding does with them, the signed bytes have changed
        junk = INSIDE_BYTES[u['i'] % len(INSIDE_BYTES)]
        where = 'inside'
        api = ['lib', 'cli'][(u['i'] // len(INSIDE_BYTES)) % 2]
        raw = signed.encode().replace(b'DATA a ', b'DATA a' + junk + b' ', 1)
        ctx.count('gpg:fileinside_cases')
    case = {'kind': 'filejunk', 'i': u['i'], 'junk': junk.hex(), 'where': where,
            'api': api, 'inside': bool(u.get('inside'))}
    ctx.case(sig=('filejunk', junk.hex(), where, api), case=case, klass='gpg-filejunk')
    ctx.count('gpg:filejunk_cases')
    logging.getLogger().setLevel(logging.CRITICAL)
    with common.Scratch('vf-c04f-') as d:
        with open(os.path.join(d, 'a'), 'wb') as f:
            f.write(data)
        top = os.path.join(d, 'Manifest')
        with open(top, 'wb') as f:
            f.write(raw)
        os.environ['GNUPGHOME'] = h.dir
        try:
            if api == 'cli':
                from gemato import cli as gcli
                try:
                    rc = gcli.main(['gemato', 'verify', '-s', d])
                except SystemExit as exc:
                    rc = exc.code
                accepted = rc == 0
            else:
                try:
                    m = ManifestRecursiveLoader(top, verify_openpgp=True,
                                                openpgp_env=SystemGPGEnvironment())
                    accepted = bool(m.openpgp_signed)
                except GematoException:
                    accepted = False
        except Exception as exc:
            if where == 'inside':
                return      # (not UTF-8: outside the domain, and not accepted)
            ctx.violation('gpg-load-raises:' + adapt.exc_key(exc), 'loading a signed '
                          'Manifest file with junk %s the block raised %r'
                          % (where, exc), case)
            return
        finally:
            os.environ.pop('GNUPGHOME', None)
        if accepted and where == 'inside':
            ctx.violation('non-utf8-bytes-in-signed-text-accepted', 'a Manifest file '
                          'whose signed text was changed by inserting the bytes %r (not '
                          'UTF-8) into an entry is reported as validly signed (%s)'
                          % (junk, api), case)
        elif accepted:
            ctx.violation('junk-outside-signed-block-accepted:' + where, 'a Manifest '
                          'file with the non-blank bytes %r %s the signed block is '
                          'reported as validly signed (%s)' % (junk, where, api), case)


def run_reload(u, ctx):
    """History: one OpenPGP environment object, the same signed top-level Manifest
    loaded twice by fresh loaders; in between it is rewritten in place (same inode,
    same size, timestamps restored) so that the signature no longer matches."""
    from gemato.exceptions import GematoException
    from gemato.openpgp import SystemGPGEnvironment
    from gemato.recursiveloader import ManifestRecursiveLoader
    h = home()
    rng = common.rng_for(ctx.seed, 'C04', 'reload', u['i'])
    data = rng.randbytes(20)
    body = mtext.render([mtext.file_entry('DATA', 'a', data, ['SHA256']),
                         {'tag': 'IGNORE', 'path': 'ign%d' % rng.randrange(100)}])
    signed = h.clearsign(body)
    case = {'kind': 'reload', 'text': signed}
    ctx.case(sig=('reload',), case=case, klass='gpg-reload')
    with common.Scratch('vf-c04r-') as d:
        with open(os.path.join(d, 'a'), 'wb') as f:
            f.write(data)
        top = os.path.join(d, 'Manifest')
        with open(top, 'w') as f:
            f.write(signed)
        os.environ['GNUPGHOME'] = h.dir
        try:
            env = SystemGPGEnvironment()
            try:
                m = ManifestRecursiveLoader(top, verify_openpgp=True, openpgp_env=env)
            except Exception as exc:
                ctx.violation('rejects-genuine:' + type(exc).__name__, 'genuinely signed '
                              'top-level Manifest rejected: %r' % (exc,), case)
                return
            if not m.openpgp_signed:
                ctx.violation('signed-flag-wrong', 'signed top-level not flagged', case)
                return
            m.assert_directory_verifies('')
            st = os.stat(top)
            # same-size tamper inside the signed body: another digest digit
            i = signed.index('SHA256 ') + 7 + rng.randrange(60)
            c = signed[i]
            t2 = signed[:i] + ('0' if c != '0' else '1') + signed[i + 1:]
            with open(top, 'r+') as f:
                f.write(t2)
            os.utime(top, ns=(st.st_atime_ns, st.st_mtime_ns))
            ctx.count('gpg:reloads')
            try:
                m2 = ManifestRecursiveLoader(top, verify_openpgp=True, openpgp_env=env)
            except GematoException:
                ctx.count('gpg:rejected')
                return
            except Exception as exc:
                ctx.violation('gpg-load-raises:' + adapt.exc_key(exc), 'reload raised %r'
                              % (exc,), case)
                return
            ctx.violation('stale-verification-reused', 'a signed top-level Manifest was '
                          'rewritten in place (same inode, size and mtime) and the second '
                          'load on the same OpenPGP environment still reports it as '
                          'validly signed (openpgp_signed=%r)' % (m2.openpgp_signed,),
                          case)
        finally:
            os.environ.pop('GNUPGHOME', None)
