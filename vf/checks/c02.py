"""C02 - sub-Manifests are trusted only through an unbroken hash chain.

An attacker changes / adds / removes a data file or DIST entry and recomputes
every Manifest from the file's own up to level k consistently (independent
writer), leaving the Manifest above level k untouched.  Every API of a fresh
real loader must then fail with ManifestMismatch naming the first broken link,
never return a result; a ChainInvariant monitor re-derives from disk, after
every call, that each loaded sub-Manifest matches an entry of a loaded parent.
"""
import os

from vf import adapt, common
from vf.gen import layout as glayout
from vf.model import match as mmatch
from vf.model import mtext

ID = 'C02'
LEVEL = 'exploration'
RULE = ('case = Manifest chain of depth 1..5 (per level plain/gz/bz2/lzma/xz, optional '
        'second Manifest in the same directory) x tamper {change, add, remove file; '
        'change, add, remove DIST} x attacker level k (every k below the top) x API '
        '{assert_directory_verifies(""), assert_directory_verifies(dir), verify_path, '
        'assert_path_verifies, find_path_entry, find_dist_entry}. Quick: depth <= 3 '
        'complete, deeper sampled. Non-trivial = every case (a forged chain segment '
        'exists); distinct = (shape, formats, tamper, k, api).')
ANCHORS = ['recursiveloader:ManifestLoader.verify_and_load',
           'recursiveloader:ManifestRecursiveLoader.load_manifests_for_path',
           'recursiveloader:ManifestRecursiveLoader.find_path_entry',
           'recursiveloader:ManifestRecursiveLoader.find_dist_entry',
           'verify:verify_path']
REQUIRED = ['recursiveloader:ManifestLoader.verify_and_load', 'chain_invariant_checks',
            'api:assert_directory_verifies-root', 'api:find_dist_entry',
            'baseline_accepts', 'stealth_cases_judged', 'weak_cases_judged',
            'twin_cases_judged', 'api:assert_directory_verifies-dir-k',
            'double_cases_judged', 'rmdir_cases_judged', 'sibling_updates_failed',
            'lastmtime_cases', 'pending_update_histories', 'epoch_mtime_cases']
ASSUMPTIONS = ['update mode (update_entries_for_directory) deliberately loads without '
               'verification; only loaders that were not asked for a directory update are '
               'covered (refreshing one entry of the top directory verifies what it loads '
               'and is part of the histories)',
               'the attacker cannot produce hash collisions']

TAMPERS = ['change', 'add', 'remove', 'dist-change', 'dist-add', 'dist-remove']
APIS = ['assert_directory_verifies-root', 'assert_directory_verifies-dir',
        'verify_path', 'assert_path_verifies', 'find_path_entry', 'find_dist_entry',
        'cli-verify-dir', 'cli-verify-root',
        # keep-going: a handler that returns must not let a broken link through,
        # neither for the scan itself nor for later calls on the same loader
        'assert_directory_verifies-dir-k', 'cli-verify-dir-k', 'k-then-verify_path',
        'k-then-find_dist_entry',
        # a last-verification time lets unchanged *files* be skipped, never a link
        # of the chain
        'assert_directory_verifies-dir-lastmtime',
        'assert_directory_verifies-root-lastmtime']


def units(tier, seed):
    u = []
    maxd = 3 if tier == 'quick' else 5
    draws = 3 if tier == 'quick' else 20
    for depth in range(1, maxd + 1):
        for t in TAMPERS:
            for draw in range(draws):
                u.append({'k': 'chain', 'depth': depth, 'tamper': t, 'draw': draw})
    for depth in (1, 2, 3):
        for weak in ('WHIRLPOOL', 'FOO'):
            for draw in range(1 if tier == 'quick' else 5):
                u.append({'k': 'chain', 'depth': depth, 'tamper': 'change',
                          'draw': 100 + draw, 'weak': weak})
    for depth in (1, 2, 3):
        for draw in range(2 if tier == 'quick' else 10):
            u.append({'k': 'chain', 'depth': depth, 'tamper': 'change',
                      'draw': 200 + draw, 'stealth': 'STEALTH'})
    for depth in (1, 2, 3):
        for draw in range(2 if tier == 'quick' else 10):
            u.append({'k': 'chain', 'depth': depth, 'tamper': 'change',
                      'draw': 700 + draw, 'stealth': 'STEALTH', 'epoch': True})
    for depth in (1, 2, 3):
        for draw in range(6 if tier == 'quick' else 40):
            u.append({'k': 'chain', 'depth': depth, 'tamper': 'change',
                      'draw': 300 + draw, 'twin': True})
    for depth in (1, 2, 3):
        for draw in range(2 if tier == 'quick' else 20):
            u.append({'k': 'chain', 'depth': depth, 'tamper': 'remove',
                      'draw': 500 + draw, 'rmdir': True})
    for depth in (1, 2):
        for draw in range(1 if tier == 'quick' else 8):
            u.append({'k': 'chain', 'depth': depth, 'tamper': 'change',
                      'draw': 600 + draw, 'sibling': True})
    # every sub-Manifest listed by two accepted Manifests with disjoint hash sets;
    # the attacker keeps sizes and timestamps
    for depth in (1, 2, 3):
        for draw in range(2 if tier == 'quick' else 10):
            u.append({'k': 'chain', 'depth': depth, 'tamper': 'change',
                      'draw': 400 + draw, 'stealth': 'STEALTH', 'double': True})
    if tier == 'quick':
        for depth in (4, 5):
            for t in TAMPERS:
                u.append({'k': 'chain', 'depth': depth, 'tamper': t, 'draw': 0})
    return u


def setup_worker(ctx):
    common.use_repo()


def build(rng, root, depth, weak=None, double=False, broken_sibling=False):
    """Nested chain with data files at every level and DIST entries.  With
    @weak, every Manifest is plain and the MANIFEST entries carry only hash names
    that cannot be computed here (an unverifiable link)."""
    names = ['l%d%s' % (i, rng.choice(['', ' x', '.d', '-é'])) for i in range(depth)]
    layout = {'top': 'Manifest', 'mans': {}}
    dirs = ['']
    for nm in names:
        dirs.append((dirs[-1] + '/' if dirs[-1] else '') + nm)
    prev = None
    prev2 = None
    chain = []
    files = {}
    for li, d in enumerate(dirs):
        os.makedirs(os.path.join(root, d) if d else root, exist_ok=True)
        fmt = 'plain' if (li == 0 or weak) else rng.choice(glayout.FMTS)
        mp = (d + '/' if d else '') + glayout.man_name('Manifest', fmt)
        layout['mans'][mp] = {'fmt': fmt, 'parent': prev, 'entries': []}
        if prev is not None:
            pdir = os.path.dirname(prev)
            layout['mans'][prev]['entries'].append(
                {'tag': 'MANIFEST', 'path': os.path.relpath(mp, pdir or '.'),
                 'size': 0, 'sums': {},
                 '_auto': [weak] if weak and weak != 'STEALTH'
                 else glayout.rand_hashes(rng, False)})
        if prev2 is not None:
            # double reference: the Manifest of this level is also listed by the second
            # Manifest of the level above, with a hash set disjoint from the first
            p2dir = os.path.dirname(prev2)
            layout['mans'][prev2]['entries'].append(
                {'tag': 'MANIFEST', 'path': os.path.relpath(mp, p2dir or '.'),
                 'size': 0, 'sums': {}, '_auto': ['BLAKE2B', 'SHA512']})
            layout['mans'][prev]['entries'][-1]['_auto'] = ['SHA256']
            prev2 = None
        chain.append(mp)
        target = mp
        if double:
            m2 = (d + '/' if d else '') + 'Manifest.legacy'
            layout['mans'][m2] = {'fmt': 'plain', 'parent': mp, 'entries': []}
            layout['mans'][mp]['entries'].append(
                {'tag': 'MANIFEST', 'path': 'Manifest.legacy', 'size': 0,
                 'sums': {}, '_auto': ['SHA1']})
            prev2 = m2
        if rng.random() < 0.3 and not weak:
            fmt2 = rng.choice(glayout.FMTS)
            m2 = (d + '/' if d else '') + glayout.man_name('Manifest.files', fmt2)
            layout['mans'][m2] = {'fmt': fmt2, 'parent': mp, 'entries': []}
            layout['mans'][mp]['entries'].append(
                {'tag': 'MANIFEST', 'path': os.path.basename(m2), 'size': 0,
                 'sums': {}, '_auto': glayout.rand_hashes(rng, False)})
            chain.append(m2)
            target = m2
        prev = target
        for k in range(rng.randint(1, 2)):
            fn = (d + '/' if d else '') + 'f%d%s' % (k, rng.choice(['', ' ', '\\']))
            data = rng.randbytes(12 if weak else rng.randint(1, 40))
            with open(os.path.join(root, fn), 'wb') as f:
                f.write(data)
            hs = glayout.rand_hashes(rng, False)
            layout['mans'][target]['entries'].append(
                mtext.file_entry('DATA', os.path.basename(fn), data, hs))
            files[fn] = target
        layout['mans'][target]['entries'].append(
            {'tag': 'DIST', 'path': 'dist-%d.tar' % li, 'size': 10 + li,
             'sums': {'SHA512': '%0128x' % rng.getrandbits(512)}})
    if broken_sibling:
        # a directory next to the chain whose (correctly listed) Manifest is not a
        # Manifest at all: loading it fails whatever the verification setting
        os.makedirs(os.path.join(root, 'zz'))
        junk = b'this is not a Manifest\n'
        with open(os.path.join(root, 'zz', 'Manifest'), 'wb') as f:
            f.write(junk)
        layout['mans']['Manifest']['entries'].append(
            mtext.file_entry('MANIFEST', 'zz/Manifest', junk, ['SHA256']))
    glayout.render(root, layout)
    if double:
        # the cross references (second Manifest of one level -> Manifest of the next)
        # are not parent links: repeat until every recorded size / digest is final
        for _ in range(depth + 2):
            glayout.render(root, layout)
    return layout, dirs, chain, files


def chain_invariant(ctx, root, loader, case):
    """Every loaded sub-Manifest must match (bytes on disk) an entry of an
    already loaded Manifest; the top needs no entry."""
    ctx.count('chain_invariant_checks')
    loaded = dict(loader.loaded_manifests)
    top = loader.top_level_manifest_filename
    for mp in loaded:
        if mp == top:
            continue
        ok = False
        for pp in loaded:
            pdir = os.path.dirname(pp)
            try:
                ents = mtext.parse_file(os.path.join(root, pp))
            except Exception:
                continue
            for e in ents:
                if e['tag'] == 'MANIFEST' and mtext.full_path(pdir, e) == mp:
                    if mmatch.check_file(root, mp, e['size'], e['sums']) is None:
                        ok = True
        if not ok:
            ctx.violation('chain-invariant', 'loaded_manifests contains %r which does '
                          'not match any entry of a loaded parent' % mp, case)
            return False
    return True


def run_case(ctx, root, case, layout, dirs, chain, files):
    from gemato.exceptions import ManifestMismatch
    from gemato.recursiveloader import ManifestRecursiveLoader
    rng = common.rng_for('c02', case['seed'])
    top = os.path.join(root, 'Manifest')
    # ---- baseline sanity: consistent tree verifies
    try:
        if case.get('weak') or case.get('sibling'):
            raise StopIteration
        m = ManifestRecursiveLoader(top, verify_openpgp=False)
        if m.assert_directory_verifies('') is not True:
            raise RuntimeError('baseline returned non-True')
        ctx.count('baseline_accepts')
    except StopIteration:
        pass
    except Exception as exc:
        ctx.violation('baseline-rejected:' + adapt.exc_key(exc),
                      'consistent chain does not verify: %r' % (exc,), case)
        return
    # ---- tamper in the deepest directory
    target_file = sorted(f for f in files if os.path.dirname(f) == dirs[-1])[0]
    tman = files[target_file]
    tdir = dirs[-1]
    ents = layout['mans'][tman]['entries']
    marker = 'forged-marker-%d' % rng.randrange(10**9)
    t = case['tamper']
    probe_path = target_file
    newdata = None
    if t == 'change':
        newdata = b'EVIL' + rng.randbytes(8)    # 12 bytes: same size in weak chains
        with open(os.path.join(root, target_file), 'wb') as f:
            f.write(newdata)
        for e in ents:
            if e['tag'] == 'DATA' and e['path'] == os.path.basename(target_file):
                hs = sorted(e['sums'])
                e['size'] = len(newdata)
                e['sums'] = mtext.digests(hs, newdata)
    elif t == 'add':
        probe_path = (tdir + '/' if tdir else '') + 'added-by-attacker'
        newdata = b'EVIL' + rng.randbytes(8)
        with open(os.path.join(root, probe_path), 'wb') as f:
            f.write(newdata)
        ents.append(mtext.file_entry('DATA', 'added-by-attacker', newdata, ['SHA256']))
    elif t == 'remove':
        os.unlink(os.path.join(root, target_file))
        for e in list(ents):
            if e['tag'] == 'DATA' and e['path'] == os.path.basename(target_file):
                ents.remove(e)
    elif t == 'dist-change':
        for e in ents:
            if e['tag'] == 'DIST':
                e['sums'] = {'SHA512': '%0128x' % rng.getrandbits(512)}
                e['size'] += 1
    elif t == 'dist-add':
        pass
    elif t == 'dist-remove':
        for e in list(ents):
            if e['tag'] == 'DIST':
                ents.remove(e)
    dist_name = 'dist-%d.tar' % (len(dirs) - 1)
    # every forged Manifest carries a unique marker
    idx = chain.index(tman)
    k = case['k']
    forged = chain[k:idx + 1] if k <= idx else [tman]
    if k > idx:
        k = idx
        forged = [tman]
    if case.get('sibling') and any(os.path.dirname(fm) == '' for fm in forged):
        # the (failing) update of the sibling directory legitimately loads every
        # Manifest of the top directory without verification (update mode, see
        # ASSUMPTIONS): only chains forged further down are in the domain here
        ctx.discarded('forged Manifest covers the updated sibling directory')
        return
    if case.get('double'):
        # the attacker also recomputes the second Manifest of every forged level
        # (it lists the forged Manifest of the level below)
        forged = list(forged) + [
            os.path.join(os.path.dirname(fm), 'Manifest.legacy') for fm in forged
            if os.path.join(os.path.dirname(fm), 'Manifest.legacy') in layout['mans']]
    for fm in forged:
        if case.get('weak') or case.get('stealth'):
            continue        # sizes must stay equal: no marker
        layout['mans'][fm]['entries'].append(
            {'tag': 'DIST', 'path': marker, 'size': 1, 'sums': {'SHA1': 'ab' * 20}})
    stamps = {}
    if case.get('stealth'):
        for fm in forged:
            st = os.stat(os.path.join(root, fm))
            stamps[fm] = (st.st_atime_ns, st.st_mtime_ns, st.st_size)
    glayout.render(root, layout, only=set(forged))
    if case.get('double'):
        for _ in range(case['depth'] + 2):
            glayout.render(root, layout, only=set(forged))
    if case.get('stealth'):
        # rewritten in place (same inode), same size, timestamps put back
        for fm, (at, mt, sz) in stamps.items():
            if os.path.getsize(os.path.join(root, fm)) != sz:
                ctx.discarded('stealth tamper changed a Manifest size')
                return
            if case.get('epoch'):
                # the attacker is free to pick any timestamps: the epoch or earlier
                at = mt = [0, -5 * 10**9, 1][case['seed'] % 3]
                ctx.count('epoch_mtime_cases')
            os.utime(os.path.join(root, fm), ns=(at, mt))
    first_broken = chain[k]
    # oracle self-check: below the broken link everything is consistent
    bdir = os.path.dirname(first_broken)
    sub = mmatch.match(os.path.join(root, bdir) if bdir else root,
                       os.path.basename(first_broken), '')
    if not sub.must_accept and not sub.unconstrained and not case.get('weak'):
        # (siblings listed by the first broken Manifest's own parent are fine)
        # (other Manifest files of the same directory are not this Manifest's
        # business when it is looked at as a top-level one)
        real = {p: k for p, k in sub.required.items()
                if not ('/' not in p and p.startswith('Manifest') and k == 'stray')
                and not (case.get('sibling') and p.startswith('zz/'))}
        if real or sub.chain or sub.incompatible:
            ctx.inconsistent('attacker left an inconsistent subtree: %r'
                             % (sub.summary(),), case)
            return
    api = case['api']
    ctx.case(sig=('c02', case['depth'], t, k, api,
                  tuple(layout['mans'][c]['fmt'] for c in chain)),
             case=case, klass=api)
    ctx.count('api:' + api)
    if case.get('double'):
        ctx.count('double_cases_judged')
    if case.get('stealth'):
        ctx.count('stealth_cases_judged')
    if case.get('weak'):
        ctx.count('weak_cases_judged')
    m = ManifestRecursiveLoader(top, verify_openpgp=False, hashes=['SHA256'])
    result = None
    if case.get('sibling'):
        # history on the loader: an update (loads without verification) of the broken
        # sibling directory fails, the caller catches the error and goes on
        try:
            m.update_entries_for_directory('zz')
            ctx.count('sibling_update_did_not_fail')
        except Exception:
            ctx.count('sibling_updates_failed')
    try:
        # histories: an innocent lookup on the same loader first (as the CLI does)
        pre = case.get('pre')
        if pre == 'find_timestamp':
            m.find_timestamp()
        elif pre == 'find_dist':
            m.find_dist_entry('no-such-dist', '')
        elif pre == 'pending-update':
            # a pending (unsaved) change of the untouched top-level Manifest on a
            # long-lived loader: refreshing the entry of a file of the top directory
            # verifies and loads nothing below it
            tops = sorted(f for f in files if '/' not in f
                          and files[f] == chain[0])
            if tops and not case.get('weak'):
                m.update_entry_for_path(tops[0])
                ctx.count('pending_update_histories')
        if api.startswith('cli-verify'):
            from gemato import cli as gcli
            import logging
            logging.getLogger().setLevel(logging.CRITICAL)
            target = root if api.endswith('root') else os.path.join(root, tdir)
            if api.endswith('-k'):
                target = os.path.join(root, tdir)
                rc = gcli.main(['gemato', 'verify', '-P', '-k', target])
            else:
                rc = gcli.main(['gemato', 'verify', '-P', target])
            if rc != 0:
                return
            result = 'exit status 0'
        elif api == 'assert_directory_verifies-dir-k':
            pol = [False, True, None][case['seed'] % 3]
            result = m.assert_directory_verifies(tdir, fail_handler=lambda e: pol)
            if not result:
                return          # reported as a failure: detected
        elif api.startswith('k-then-'):
            pol = [False, True][case['seed'] % 2]
            try:
                m.assert_directory_verifies(tdir, fail_handler=lambda e: pol)
            except ManifestMismatch:
                pass
            if api == 'k-then-verify_path':
                result = m.verify_path(probe_path)
            else:
                r1 = m.find_dist_entry(dist_name, tdir)
                r2 = m.find_dist_entry(marker, tdir)
                result = ('dist', None if r1 is None else adapt.norm_gemato(r1),
                          None if r2 is None else adapt.norm_gemato(r2))
        elif api.endswith('-lastmtime'):
            ctx.count('lastmtime_cases')
            result = m.assert_directory_verifies(
                '' if '-root-' in api else tdir,
                last_mtime=[4e9, 2e9, os.stat(top).st_mtime + 1][case['seed'] % 3])
        elif api == 'assert_directory_verifies-root':
            result = m.assert_directory_verifies('')
        elif api == 'assert_directory_verifies-dir':
            result = m.assert_directory_verifies(tdir)
        elif api == 'verify_path':
            result = m.verify_path(probe_path)
        elif api == 'assert_path_verifies':
            result = m.assert_path_verifies(probe_path)
            result = 'returned'
        elif api == 'find_path_entry':
            result = m.find_path_entry(probe_path)
            result = ('entry', None if result is None else adapt.norm_gemato(result))
        elif api == 'find_dist_entry':
            r1 = m.find_dist_entry(dist_name, tdir)
            r2 = m.find_dist_entry(marker, tdir)
            result = ('dist', None if r1 is None else adapt.norm_gemato(r1),
                      None if r2 is None else adapt.norm_gemato(r2))
    except ManifestMismatch as exc:
        chain_invariant(ctx, root, m, case)
        if exc.path != first_broken and not case.get('weak'):
            # a Manifest closer to the top than the forged segment cannot fail
            ctx.violation('wrong-broken-link', 'ManifestMismatch names %r, the first '
                          'broken link is %r' % (exc.path, first_broken), case)
        return
    except Exception as exc:
        if case.get('weak') and type(exc).__name__ == 'UnsupportedHash':
            return      # the link cannot be checked here: refusing is right
        if case.get('sibling') and type(exc).__name__ == 'ManifestSyntaxError':
            return      # whole-tree calls meet the broken sibling first
        chain_invariant(ctx, root, m, case)
        ctx.violation('tamper-raises:' + adapt.exc_key(exc), 'forged chain below level '
                      '%d makes %s raise %r instead of ManifestMismatch' % (k, api, exc),
                      case)
        return
    if not case.get('weak'):
        chain_invariant(ctx, root, m, case)
    ctx.violation('forged-chain-accepted:' + api,
                  '%s returned %r although Manifest %r does not match its parent entry '
                  '(attacker recomputed levels %d..%d)' % (api, result, first_broken,
                                                           k, idx), case)


TWIN_APIS = ['verify_path', 'assert_path_verifies', 'find_path_entry', 'find_dist_entry',
             'assert_directory_verifies-root', 'assert_directory_verifies-dir']


def run_twin(ctx, root, case, layout, dirs, chain, files):
    """The attacker touches no genuine Manifest: next to a *compressed* Manifest of
    the chain a plain file with the same base name is dropped, holding forged
    entries, and the data file is changed to match them."""
    from gemato.exceptions import ManifestMismatch
    from gemato.recursiveloader import ManifestRecursiveLoader
    rng = common.rng_for('c02twin', case['seed'])
    cands = [m for m in chain if layout['mans'][m]['fmt'] != 'plain'
             and any(e['tag'] == 'DATA' for e in layout['mans'][m]['entries'])]
    if not cands:
        ctx.discarded('no compressed Manifest with file entries in this chain')
        return
    victim = cands[case['seed'] % len(cands)]
    vdir = os.path.dirname(victim)
    sfx = mtext.suffix_of(victim)
    twin = victim[:-len(sfx) - 1]
    ents = [dict(e, sums=dict(e.get('sums', {}))) for e in layout['mans'][victim]['entries']]
    genuine = [e for e in ents if e['tag'] == 'DATA'][0]
    probe = (vdir + '/' if vdir else '') + genuine['path']
    newdata = b'EVIL' + rng.randbytes(9)
    with open(os.path.join(root, probe), 'wb') as f:
        f.write(newdata)
    hs = sorted(genuine['sums'])
    genuine_norm = ('DATA', genuine['path'], genuine['size'],
                    tuple(sorted(genuine['sums'].items())))
    genuine['size'] = len(newdata)
    genuine['sums'] = mtext.digests(hs, newdata)
    marker = 'forged-marker-%d' % rng.randrange(10**9)
    ents.append({'tag': 'DIST', 'path': marker, 'size': 1, 'sums': {'SHA1': 'ab' * 20}})
    with open(os.path.join(root, twin), 'w', encoding='utf8') as f:
        # (the twin repeats the file / DIST entries; links to deeper Manifests are
        # left out, the attacker has no use for them)
        f.write(mtext.render([e for e in ents if e.get('_auto') is None]))
    api = case['api']
    ctx.case(sig=('c02-twin', case['depth'], api, layout['mans'][victim]['fmt']),
             case=case, klass='twin')
    ctx.count('twin_cases_judged')
    m = ManifestRecursiveLoader(os.path.join(root, 'Manifest'), verify_openpgp=False)
    try:
        if api == 'verify_path':
            r = m.verify_path(probe)
            bad = r[0] is True
            result = r
        elif api == 'assert_path_verifies':
            m.assert_path_verifies(probe)
            bad, result = True, 'returned'
        elif api == 'find_path_entry':
            e = m.find_path_entry(probe)
            result = None if e is None else adapt.norm_gemato(e)
            bad = result is None or result[2:] != genuine_norm[2:]
        elif api == 'find_dist_entry':
            e = m.find_dist_entry(marker, vdir)
            result = None if e is None else adapt.norm_gemato(e)
            bad = e is not None
        elif api.endswith('-lastmtime'):
            ctx.count('lastmtime_cases')
            result = m.assert_directory_verifies(
                '' if '-root-' in api else tdir,
                last_mtime=[4e9, 2e9, os.stat(top).st_mtime + 1][case['seed'] % 3])
        elif api == 'assert_directory_verifies-root':
            result = m.assert_directory_verifies('')
            bad = bool(result)
        else:
            result = m.assert_directory_verifies(vdir)
            bad = bool(result)
    except ManifestMismatch:
        chain_invariant(ctx, root, m, case)
        return
    except Exception as exc:
        ctx.violation('twin-raises:' + adapt.exc_key(exc), '%s raised %r' % (api, exc),
                      case)
        return
    chain_invariant(ctx, root, m, case)
    if bad:
        ctx.violation('unverified-twin-used:' + api, '%s -> %r: the answer comes from '
                      'the plain file %r, which no Manifest lists, instead of the '
                      'verified %r' % (api, result, twin, victim), case)


def run_rmdir(ctx, root, case, layout, dirs, chain, files):
    """No Manifest is touched: the deepest directory is removed altogether (its files
    and its Manifest).  Everything that was listed there is missing now, and every
    API must say so - the sub-Manifest itself cannot be loaded any more."""
    import shutil
    from gemato.exceptions import ManifestMismatch
    from gemato.recursiveloader import ManifestRecursiveLoader
    tdir = dirs[-1]
    if not tdir:
        ctx.discarded('chain of depth 0')
        return
    probe = sorted(f for f in files if os.path.dirname(f) == tdir)[0]
    dist_name = 'dist-%d.tar' % (len(dirs) - 1)
    shutil.rmtree(os.path.join(root, tdir))
    api = case['api']
    ctx.case(sig=('c02-rmdir', case['depth'], api), case=case, klass='rmdir')
    ctx.count('rmdir_cases_judged')
    m = ManifestRecursiveLoader(os.path.join(root, 'Manifest'), verify_openpgp=False)
    try:
        if api == 'verify_path':
            r = m.verify_path(probe)
            bad = r[0] is True
        elif api == 'assert_path_verifies':
            m.assert_path_verifies(probe)
            bad, r = True, 'returned'
        elif api == 'find_path_entry':
            r = m.find_path_entry(probe)
            bad = r is None
            r = None if r is None else adapt.norm_gemato(r)
        elif api == 'find_dist_entry':
            r = m.find_dist_entry(dist_name, tdir)
            bad = r is None
            r = None if r is None else adapt.norm_gemato(r)
        elif api == 'assert_directory_verifies-root':
            r = m.assert_directory_verifies('')
            bad = bool(r)
        else:
            r = m.assert_directory_verifies(os.path.dirname(tdir))
            bad = bool(r)
    except ManifestMismatch:
        return
    except Exception as exc:
        from gemato.exceptions import GematoException
        if isinstance(exc, (GematoException, OSError)):
            return
        ctx.violation('rmdir-raises:' + adapt.exc_key(exc), '%s raised %r' % (api, exc),
                      case)
        return
    if bad:
        ctx.violation('removed-directory-not-noticed:' + api, '%s -> %r although the '
                      'directory %r (with its Manifest) is gone' % (api, r, tdir), case)


def gen_and_run(ctx, u, k, api, seed):
    rng = common.rng_for(ctx.seed, ID, u['depth'], u['tamper'], u['draw'])
    with common.Scratch('vf-c02-') as d:
        root = os.path.join(d, 't')
        layout, dirs, chain, files = build(rng, root, u['depth'],
                                           u.get('weak') or u.get('stealth'),
                                           double=bool(u.get('double')),
                                           broken_sibling=bool(u.get('sibling')))
        case = {'kind': 'c02', 'depth': u['depth'], 'tamper': u['tamper'],
                'draw': u['draw'], 'k': k, 'api': api, 'seed': seed,
                'gen_seed': ctx.seed, 'weak': u.get('weak'),
                'stealth': u.get('stealth'), 'double': u.get('double'),
                'sibling': u.get('sibling'),
                'pre': [None, 'find_timestamp', 'find_dist', 'pending-update'][seed % 4],
                'epoch': u.get('epoch')}
        if u.get('rmdir'):
            case['rmdir'] = True
            run_rmdir(ctx, root, case, layout, dirs, chain, files)
        elif u.get('twin'):
            case['twin'] = True
            run_twin(ctx, root, case, layout, dirs, chain, files)
        else:
            run_case(ctx, root, case, layout, dirs, chain, files)
        return len(chain), case


def run_unit(u, ctx):
    if u.get('rmdir'):
        for n, api in enumerate(TWIN_APIS):
            gen_and_run(ctx, u, 0, api, n)
        return
    if u.get('twin'):
        for n, api in enumerate(TWIN_APIS):
            for v in range(2):
                gen_and_run(ctx, u, 0, api, n * 2 + v)
        return
    rng = common.rng_for(ctx.seed, ID, u['depth'], u['tamper'], u['draw'])
    with common.Scratch('vf-c02-') as d:
        root = os.path.join(d, 't')
        layout, dirs, chain, files = build(rng, root, u['depth'],
                                           u.get('weak') or u.get('stealth'),
                                           double=bool(u.get('double')),
                                           broken_sibling=bool(u.get('sibling')))
        nchain = len(chain)
    n = 0
    for k in range(1, nchain):
        for api in APIS:
            n += 1
            ln, case = gen_and_run(ctx, u, k, api, n)
            if n % 7 == 1:
                ctx.sample(case, 'chain')


def replay(case, ctx):
    ctx.seed = case.get('gen_seed', ctx.seed)
    u = {'depth': case['depth'], 'tamper': case['tamper'], 'draw': case['draw'],
         'weak': case.get('weak'), 'stealth': case.get('stealth'),
         'twin': case.get('twin'), 'double': case.get('double'),
         'rmdir': case.get('rmdir'), 'sibling': case.get('sibling'),
         'epoch': case.get('epoch')}
    gen_and_run(ctx, u, case['k'], case['api'], case['seed'])
