"""C03 - update writes Manifests that describe the tree exactly and then verify.

Histories: a generated tree with a prior Manifest state (exact, stale, duplicate,
ghost entries, unregistered / undecodable sub-Manifests, split Manifests in one
directory, compressed, absent), then 1..3 rounds of (edits; update + save) with
the real ManifestRecursiveLoader or the CLI.  After every round that completed
without error the post-condition vf.model.update_post.check and a fresh
verification (real loader + independent match predicate) are evaluated.
"""
import logging
import os

from vf import adapt, common
from vf.gen import mutate as gmutate
from vf.gen import scenario
from vf.gen import tree as gtree
from vf.model import match as mmatch
from vf.model import mtext
from vf.model import update_post
from vf.mon import contracts, walkperm

ID = 'C03'
LEVEL = 'exploration'
RULE = ('history = seeded tree + prior Manifest state (0..4 mutations from file-side, '
        'Manifest-side and unregistered-Manifest classes, or no Manifests at all) + '
        'options (hash set, sort, force, compress watermark/format, scope = whole tree '
        'or a sub-directory, library or CLI) + 1..3 rounds of (0..3 edits; update; '
        'save) each starting from gemato\'s own previous output; big = trees with <= 40 '
        'dirs / 150 files; cli-hist = CLI histories mixing `update SUBDIR` and `update '
        '--incremental` with explicit mtimes relative to the TIMESTAMP. Non-trivial = the '
        'update completed and something had to change; distinct = hash of the '
        'materialised history.')
ANCHORS = ['recursiveloader:ManifestRecursiveLoader.update_entries_for_directory',
           'recursiveloader:ManifestRecursiveLoader.save_manifests',
           'recursiveloader:ManifestRecursiveLoader.get_deduplicated_file_entry_dict_for_update',
           'recursiveloader:ManifestRecursiveLoader.load_unregistered_manifests',
           'verify:update_entry_for_path', 'cli:UpdateCommand.__call__',
           'cli:CreateCommand.__call__']
REQUIRED = ['recursiveloader:ManifestRecursiveLoader.save_manifests',
            'updates_completed', 'postconditions_checked', 'fresh_verifications',
            'cli_updates', 'cli_history_steps', 'cli_histories_verified',
            'same_loader_rounds', 'profile_updates_completed']
ASSUMPTIONS = ['nothing is claimed when update or save raised (C10 / C18 watch that)',
               'one update round in seven runs under an ebuild profile (plus the adopt '
               'layouts); whole ebuild repositories are C19']

PRIOR = (gmutate.FS_CLASSES * 2 + ['m-digest', 'm-size', 'm-drop', 'm-ghost',
                                   'm-conflict', 'm-disjoint-wrong', 'm-compatible-dup',
                                   'm-chain', 'm-dup-ignore', 'm-unsupported',
                                   'm-dup-manifest-entry', 'm-dup-manifest-entry',
                                   'm-upper-digest', 'm-digest-shared']
         + gmutate.UNREG_CLASSES * 2 + ['m-entry-for-dir', 'm-misc-dup',
                                        'm-manifest-data-twin',
                                        'm-manifest-as-data-only',
                                        'm-manifest-as-data-only',
                                        'm-manifest-data-in-between',
                                        'm-manifest-data-in-between',
                                        'm-compatible-dup-across'])
EDITS = ['content', 'size', 'delete', 'stray', 'stray', 'stray-manifest-name', 'retype',
         'hidden-content', 'hidden-delete']
N = {'quick': 1500, 'thorough': 60000}
PER_UNIT = 15


BIG = {'max_dirs': 40, 'max_files': 150, 'depth': 12, 'specials': False}


def units(tier, seed):
    u = [{'k': 'gen', 'i': i, 'n': PER_UNIT} for i in range(N[tier] // PER_UNIT)]
    # trees an order of magnitude larger and three times deeper
    for i in range(8 if tier == 'quick' else 300):
        u.append({'k': 'big', 'i': 100000 + i, 'n': 2})
    for i in range(10 if tier == 'quick' else 300):
        u.append({'k': 'cli-hist', 'i': i, 'n': 4})
    u.append({'k': 'adopt'})
    return u


def setup_worker(ctx):
    common.use_repo()
    logging.getLogger().setLevel(logging.CRITICAL)
    contracts.install_path_prefix(ctx)


def do_update(root, opt, loader=None, keep=None):
    """One update+save.  -> ('ok', None) | ('exc', exception).  With @loader the
    given (long-lived) loader object is used; with @keep (a list) the loader
    created here is appended to it for later rounds."""
    from gemato.recursiveloader import ManifestRecursiveLoader
    top = os.path.join(root, 'Manifest')
    try:
        if loader is not None:
            with walkperm.WalkPermuter(opt['wseed']):
                loader.update_entries_for_directory(opt['scope'])
                loader.save_manifests(force=opt['force'])
            return ('ok', None)
        if opt['api'] == 'cli':
            from gemato import cli as gcli
            argv = ['gemato', 'create' if opt['create'] else 'update',
                    '--hashes', ' '.join(opt['hashes'])]
            if opt['force']:
                argv.append('--force-rewrite')
            if opt['watermark'] is not None:
                argv += ['-c', str(opt['watermark']), '-C', opt['format']]
            if profile_of(opt):
                argv += ['-p', profile_of(opt)]
            argv.append(os.path.join(root, opt['scope']) if opt['scope'] else root)
            try:
                rc = gcli.main(argv)
            except SystemExit as exc:
                rc = 'exit:%r' % (exc.code,)
            if rc != 0:
                return ('rc', rc)
            return ('ok', None)
        kw = {}
        if profile_of(opt):
            from gemato.profile import get_profile_by_name
            kw['profile'] = get_profile_by_name(profile_of(opt))
        with walkperm.WalkPermuter(opt['wseed']):
            m = ManifestRecursiveLoader(
                top, verify_openpgp=False, hashes=list(opt['hashes']),
                allow_create=opt['create'], sort=opt['sort'],
                compress_watermark=opt['watermark'], compress_format=opt['format'],
                **kw)
            if keep is not None:
                keep.append(m)
            m.update_entries_for_directory(opt['scope'])
            m.save_manifests(force=opt['force'])
        return ('ok', None)
    except Exception as exc:
        return ('exc', exc)


def fresh_verify(root, scope):
    from gemato.recursiveloader import ManifestRecursiveLoader
    try:
        m = ManifestRecursiveLoader(os.path.join(root, 'Manifest'),
                                    verify_openpgp=False)
        return ('ret', m.assert_directory_verifies(scope))
    except Exception as exc:
        return ('exc', exc)


MAN_NAMES = ['Manifest'] + ['Manifest.' + x for x in mtext.SUFFIXES]


def pre_state(root):
    """What the Manifest files looked like before the round (independent reader):
    paths with several entries in one Manifest file, and whether some Manifest is
    referenced from a Manifest in its own directory."""
    mans, _ = update_post.reachable_manifests(root, 'Manifest')
    # (duplicates also count in Manifests that are not referenced yet: the update
    # may register them)
    from vf.checks import c10
    allmans = c10.manifest_state(root)
    dup_paths = set()
    same_dir_chain = False
    for mp, ents in allmans.items():
        mdir = os.path.dirname(mp)
        seen = {}
        for e in ents:
            if e['tag'] in ('DIST', 'TIMESTAMP', 'IGNORE'):
                continue
            full = mtext.full_path(mdir, e)
            seen[full] = seen.get(full, 0) + 1
            if e['tag'] == 'MANIFEST' and os.path.dirname(full) == mdir:
                same_dir_chain = True
        dup_paths.update(p for p, n in seen.items() if n > 1)
    # Manifests whose parent entry was already stale before the round
    stale = set()
    for mp, ents in mans.items():
        mdir = os.path.dirname(mp)
        for e in ents:
            if e['tag'] == 'MANIFEST':
                full = mtext.full_path(mdir, e)
                if mmatch.normalised(full) and \
                        mmatch.check_file(root, full, e['size'], e['sums']) is not None:
                    stale.add(full)
    return {'dup_paths': dup_paths, 'same_dir_chain': same_dir_chain, 'stale': stale,
            'dup_manifests': sorted(p for p in dup_paths if p in allmans),
            'data_listed_dirs': data_listed_dirs(root, mans)}


def _logical(mp):
    sfx = mtext.suffix_of(mp)
    return mp[:-len(sfx) - 1] if sfx else mp


def referenced_dirs(mans):
    """Directories holding a Manifest that some MANIFEST entry in @mans names."""
    out = set()
    for mp, ents in mans.items():
        mdir = os.path.dirname(mp)
        for e in ents:
            if e['tag'] == 'MANIFEST':
                out.add(os.path.dirname(mtext.full_path(mdir, e)))
    return out


def data_listed_dirs(root, mans):
    """Directories holding a Manifest-named file that @mans list by non-MANIFEST
    entries only (a plain file as far as verification is concerned) and no
    MANIFEST-referenced Manifest."""
    ref = referenced_dirs(mans)
    out = set()
    for mp, ents in mans.items():
        mdir = os.path.dirname(mp)
        for e in ents:
            if e['tag'] in ('DATA', 'MISC', 'EBUILD', 'AUX'):
                full = mtext.full_path(mdir, e)
                if os.path.basename(full) in MAN_NAMES and \
                        os.path.dirname(full) not in ref:
                    out.add(os.path.dirname(full))
    return out


def label(finding, pre, scope='', root=None, profile=None):
    kind, path, det = finding
    if path in pre['dup_paths'] and mtext.comp_prefix(path, scope) \
            and kind != 'uncovered':
        # (the path itself is listed twice in one Manifest: D20, whatever else
        # is going on around it)
        return 'same-manifest-duplicate:' + kind
    if profile and root is not None and pre.get('data_listed_dirs'):
        # D33: the profile wanted a Manifest where a data-listed Manifest name sits
        now, _ = update_post.reachable_manifests(root, 'Manifest')
        ref = referenced_dirs(now)
        if any(d in ref and mtext.comp_prefix(path, d)
               for d in pre['data_listed_dirs']):
            return 'profile-adopts-data-listed-manifest:' + kind
    if root is not None and pre.get('dup_manifests'):
        # a Manifest that was listed twice in one Manifest file and lost its MANIFEST
        # entry to the same-Manifest deduplication (D20) is no longer in use: the
        # files it covered are uncovered (under a profile that wants a Manifest in
        # that directory a new, empty one takes its place)
        now, _ = update_post.reachable_manifests(root, 'Manifest')
        in_use = {_logical(m) for m in now}
        for dm in pre['dup_manifests']:
            if not mtext.comp_prefix(dm, scope):
                continue
            beneath = mtext.comp_prefix(os.path.dirname(path), os.path.dirname(dm)) \
                or _logical(path) == _logical(dm)
            if kind == 'uncovered' and beneath and (_logical(dm) not in in_use
                                                    or profile):
                return 'same-manifest-duplicate:manifest-unreferenced'
            if profile and beneath:
                return 'same-manifest-duplicate:' + kind
    if kind == 'manifest-entry-stale' and scope and path in pre['stale'] \
            and not mtext.comp_prefix(os.path.dirname(path), scope):
        return 'stale-chain-above-subdir-scope'
    if kind == 'uncovered' and '/' not in path and path in MAN_NAMES:
        return 'toplevel-manifest-named-file-uncovered'
    if (path in pre['dup_paths'] or (os.path.basename(path) in MAN_NAMES and _logical(
            path) in {_logical(p) for p in pre['dup_manifests']})) \
            and mtext.comp_prefix(path, scope):
        # (deduplication only touches entries beneath the updated directory)
        return 'same-manifest-duplicate:' + kind
    return kind


def has_dir_symlink(root):
    for dp, dn, fn in os.walk(root):
        for d in dn:
            if os.path.islink(os.path.join(dp, d)):
                return True
    return False


def crowded_dirs(root):
    """Directories holding more than one file with a Manifest name (Manifest,
    Manifest.gz, ...): which of them is 'the' Manifest, and what recompression
    may overwrite, is not fixed by the statement (U14)."""
    out = []
    for dp, dn, fn in os.walk(root):
        if sum(1 for f in fn if f in MAN_NAMES) > 1:
            out.append(os.path.relpath(dp, root))
        # a Manifest file that is visible under a second path through a directory
        # symlink (aliased Manifest, U15)
        for d in dn:
            p = os.path.join(dp, d)
            if os.path.islink(p) and not d.startswith('.'):
                for dp2, dn2, fn2 in os.walk(os.path.realpath(p)):
                    if any(f in MAN_NAMES or f.startswith('Manifest.files')
                           for f in fn2):
                        out.append(os.path.relpath(p, root))
                        break
    return out


def judge_round(ctx, root, case, rnd, opt, loader=None, keep=None):
    pre = pre_state(root)
    # a Manifest that was listed twice in an EARLIER round of this history may have
    # lost its MANIFEST entry to the deduplication without anything to show for it
    # then (an empty directory): what a later round adds there is its consequence
    seen = case.setdefault('_dup_manifests_seen', [])
    for x in pre['dup_manifests']:
        if x not in seen:
            seen.append(x)
    pre['dup_manifests'] = sorted(set(pre['dup_manifests']) | set(seen))
    crowded = crowded_dirs(root)
    kind, val = do_update(root, opt, loader=loader, keep=keep)
    if crowded:
        ctx.case(sig=('c03-crowded',), case=case, nontrivial=False, klass='crowded')
        ctx.unconstrained('several Manifest-named files in one directory, or a '
                          'Manifest aliased through a directory symlink (U14/U15)')
        return False        # whatever came out of it taints the later rounds
    if profile_of(opt) and has_dir_symlink(root):
        ctx.case(sig=('c03-profile-alias',), case=case, nontrivial=False, klass='crowded')
        ctx.unconstrained('a profile may create a Manifest in a directory that is also '
                          'visible through a directory symlink (aliased Manifest, U15)')
        return False
    prior = tuple(sorted(r['class'] for r in case['mutations']))
    ctx.case(sig=('c03', prior[:3], opt['api'], opt['scope'] != '', opt['force'],
                  opt['sort'], opt['watermark'] is not None, rnd, kind),
             case=case, nontrivial=(kind == 'ok'), klass='round%d' % rnd)
    if kind == 'exc':
        from gemato.exceptions import GematoException
        name = type(val).__name__
        if isinstance(val, (GematoException, OSError)):
            ctx.count('update_raised:' + name)
        else:
            ctx.count('update_internal_error:' + adapt.exc_key(val))
        return False
    if kind == 'rc':
        ctx.count('update_cli_rc:%s' % (val,))
        return False
    ctx.count('updates_completed')
    if opt['api'] == 'cli':
        ctx.count('cli_updates')
    if profile_of(opt) and loader is None:
        ctx.count('profile_updates_completed')
    detail = {'round': rnd, 'opt': opt, 'profile': profile_of(opt)}
    findings = update_post.check(root, 'Manifest', opt['scope'], opt['hashes'])
    ctx.count('postconditions_checked')
    if findings:
        detail['findings'] = findings[:8]
        done = set()
        for f in findings:
            lb = label(f, pre, opt['scope'], root, profile_of(opt))
            if lb in done:
                continue
            done.add(lb)
            ctx.violation('post:' + lb, 'after update+save completed without error: '
                          '%s %r %r' % f, case, detail)
        # Manifests that are wrong now taint the later rounds of this history (their
        # consequences would be reported again under other names)
        return False
    fk, fv = fresh_verify(root, opt['scope'])
    ctx.count('fresh_verifications')
    res = mmatch.match(root, 'Manifest', opt['scope'])
    if fk == 'exc' or fv is not True:
        if not res.unconstrained:
            why = adapt.exc_key(fv) if fk == 'exc' else 'False'
            if fk == 'exc' and getattr(fv, 'path', None) in pre['stale'] \
                    and opt['scope'] and not mtext.comp_prefix(
                        os.path.dirname(fv.path), opt['scope']):
                why = 'stale-chain-above-subdir-scope'
            ctx.violation('fresh-verify-fails:' + why,
                          'a fresh verification after a successful update fails: %r'
                          % (fv,), case, dict(detail, model=res.summary()))
    elif not res.must_accept and not res.unconstrained:
        ctx.violation('model-disagrees-after-update',
                      'gemato verifies the updated tree but the independent predicate '
                      'finds %r' % (res.summary(),), case, detail)
    return True


def gen_options(rng, root, first, absent):
    dirs = scenario.existing_dirs(root)
    scope = '' if (absent or rng.random() < 0.7) else rng.choice(dirs)
    wm = rng.choice([None, None, 0, 100, 10**6])
    return with_profile({'api': 'cli' if rng.random() < 0.2 else 'lib',
            'create': bool(absent and first),
            'hashes': sorted(rng.sample(mtext.supported_hashes(), rng.randint(1, 3))),
            'sort': rng.random() < 0.5, 'force': rng.random() < 0.3,
            'watermark': wm, 'format': rng.choice(['gz', 'bz2', 'lzma', 'xz']),
            'scope': scope, 'wseed': rng.randrange(1 << 30)})


def with_profile(opt):
    """Every seventh set of options or so runs under one of the ebuild profiles
    (derived from the walk seed, so that the other draws stay what they were)."""
    opt['profile'] = {0: 'ebuild', 1: 'old-ebuild'}.get(opt['wseed'] % 14)
    return opt


def profile_of(opt):
    return opt.get('profile')


def gen_history(rng, root, big=False):
    nmut = rng.choice([0, 1, 2, 2, 3, 4])
    opts = {'p_split': 0.15, 'specials': rng.random() < 0.1}
    if big:
        nmut = rng.choice([0, 2, 5, 9])
        opts = dict(BIG, p_split=0.15)
    case, layout, info = scenario.build(rng, root, PRIOR, nmut, opts)
    absent = rng.random() < 0.12
    if absent:
        for mp in list(update_post.manifest_files_on_disk(root)):
            os.unlink(os.path.join(root, mp))
            case['ops'].append({'op': 'unlink', 'p': mp})
        case['manifests'] = []
        case['absent'] = True
    rounds = []
    for r in range(rng.randint(1, 3)):
        opt = gen_options(rng, root, r == 0, absent)
        edits = []
        if r > 0:
            edits = gen_edits(rng, root, rng.randint(0, 3))
        rounds.append({'edits': edits, 'opt': opt})
        # edits are applied when the round is executed; options may refer to
        # directories that exist only then, so scope is validated at run time
    for r in case['mutations']:
        # an update asking for exactly the hash set an upper-cased entry carries
        if r.get('class') == 'm-upper-digest' and r.get('hashes') and all(
                h in mtext.supported_hashes() for h in r['hashes']) \
                and rng.random() < 0.7:
            rounds[0]['opt']['hashes'] = list(r['hashes'])
            rounds[0]['opt']['force'] = False
    case['rounds'] = rounds
    case['one_loader'] = rng.random() < 0.3
    return case


def gen_edits(rng, root, n):
    """Edit descriptions; materialised against the tree when executed (paths are
    chosen by index so that replay is deterministic)."""
    return [{'kind': rng.choice(EDITS), 'pick': rng.randrange(1 << 20),
             'seed': rng.randrange(1 << 30)} for _ in range(n)]


def apply_edit(root, ed):
    """Apply one edit to whatever the tree looks like now; returns ops."""
    rng = common.rng_for('edit', ed['seed'])
    files = []
    dirs = ['']
    for dp, dn, fn in os.walk(root):
        dn[:] = [d for d in dn if not d.startswith('.')
                 and not os.path.islink(os.path.join(dp, d))]
        for d in dn:
            dirs.append(os.path.relpath(os.path.join(dp, d), root))
        for f in fn:
            p = os.path.join(dp, f)
            if f.startswith('.') or f.startswith('Manifest') or os.path.islink(p) \
                    or not os.path.isfile(p):
                continue
            files.append(os.path.relpath(p, root))
    files.sort()
    dirs.sort()
    k = ed['kind']
    ops = []
    if k in ('hidden-content', 'hidden-delete'):
        # a hidden file (a previous Manifest may list it although gemato itself never
        # would) is edited or removed
        hidden = sorted(
            os.path.relpath(os.path.join(dp, f), root)
            for dp, dn, fn in os.walk(root) for f in fn
            if (f.startswith('.') or any(c.startswith('.') for c in os.path.relpath(
                dp, root).split(os.sep) if c != '.'))
            and os.path.isfile(os.path.join(dp, f))
            and not os.path.islink(os.path.join(dp, f)))
        if not hidden:
            return ops
        f = hidden[ed['pick'] % len(hidden)]
        if k == 'hidden-delete':
            ops.append({'op': 'unlink', 'p': f})
        else:
            with open(os.path.join(root, f), 'rb') as fh:
                data = fh.read()
            ops.append({'op': 'write', 'p': f, 'c': common.spec_of(data + b'edited')})
        gmutate.apply_ops(root, ops)
        return ops
    if k in ('content', 'size', 'delete', 'retype'):
        if not files:
            return ops
        f = files[ed['pick'] % len(files)]
        with open(os.path.join(root, f), 'rb') as fh:
            data = fh.read()
        if k == 'content':
            spec = gtree.same_size_other(rng, common.spec_of(data)) or {'t': 'new'}
            ops.append({'op': 'write', 'p': f, 'c': spec})
        elif k == 'size':
            ops.append({'op': 'write', 'p': f, 'c': common.spec_of(data + b'+')})
        elif k == 'delete':
            ops.append({'op': 'unlink', 'p': f})
        else:
            ops.append({'op': 'unlink', 'p': f})
            ops.append({'op': 'mkdir', 'p': f})
            ops.append({'op': 'write', 'p': f + '/inner', 'c': {'t': 'i'}})
    else:
        d = dirs[ed['pick'] % len(dirs)]
        nm = ('Manifest' if k == 'stray-manifest-name' else
              'new' + gtree.rand_name(rng, 0.3))
        f = nm if not d else d + '/' + nm
        if os.path.lexists(os.path.join(root, f)) or f == 'Manifest':
            return ops
        ops.append({'op': 'write', 'p': f,
                    'c': {'t': 'DATA x 0\n'} if k == 'stray-manifest-name'
                    else gtree.rand_content(rng)})
    gmutate.apply_ops(root, ops)
    return ops


def run_history(ctx, root, case):
    kept = []
    first = None
    for rnd, r in enumerate(case['rounds']):
        for ed in r['edits']:
            apply_edit(root, ed)
        opt = dict(r['opt'])
        if case.get('one_loader'):
            # history on ONE loader object: the options given to its constructor in
            # the first round stay in force, later rounds choose scope and force only
            opt['api'] = 'lib'
            if first is not None:
                for k in ('hashes', 'sort', 'watermark', 'format'):
                    opt[k] = first[k]
            else:
                first = opt
        if opt['scope'] and not os.path.isdir(os.path.join(root, opt['scope'])):
            opt['scope'] = ''
        if opt['api'] == 'cli' and not opt['create'] and \
                not os.path.exists(os.path.join(root, 'Manifest')):
            opt['create'] = True
        if not opt['create'] and not os.path.exists(os.path.join(root, 'Manifest')):
            opt['create'] = True
            opt['scope'] = ''
        if opt['api'] == 'cli' and opt['scope']:
            from vf.model import findtop
            ft = findtop.find_top(os.path.join(root, opt['scope']))
            if ft.unconstrained or {os.path.realpath(a) if a else a
                                    for a in ft.answers} != \
                    {os.path.realpath(os.path.join(root, 'Manifest'))}:
                opt['api'] = 'lib'
        loader = kept[0] if (case.get('one_loader') and kept) else None
        if loader is not None:
            ctx.count('same_loader_rounds')
        if not judge_round(ctx, root, case, rnd, opt, loader=loader,
                           keep=kept if case.get('one_loader') else None):
            break


def _cli(argv):
    from gemato import cli as gcli
    try:
        return gcli.main(['gemato'] + argv)
    except SystemExit as exc:
        return 'exit:%r' % (exc.code,)
    except Exception as exc:
        return exc


def exec_cli_history(ctx, case):
    """Several edit + update rounds through the CLI, mixing sub-directory updates and
    `--incremental` whole-tree updates on a tree that carries a TIMESTAMP; mtimes are
    set explicitly (relative to that TIMESTAMP), so nothing depends on the clock."""
    import time
    hashes = ' '.join(case['hashes'])
    hs = sorted(case['hashes'])
    with common.Scratch('vf-c03i-') as d:
        root = os.path.join(d, 't')
        gtree.materialize(case['tree'], root)
        t0 = int(time.time()) - 100000
        for dp, dn, fn in os.walk(root):
            for x in fn:
                os.utime(os.path.join(dp, x), (t0 - 500, t0 - 500))
        if _cli(['create', '--hashes', hashes, '-t', root]) != 0:
            ctx.count('harness_error')
            return
        mp = os.path.join(root, 'Manifest')
        with open(mp) as f:
            lines = f.read().split('\n')
        stamp = time.strftime('%Y-%m-%dT%H:%M:%SZ', time.gmtime(t0))
        with open(mp, 'w') as f:
            f.write('\n'.join('TIMESTAMP ' + stamp if ln.startswith('TIMESTAMP ')
                              else ln for ln in lines))
        ctx.case(sig=('c03-cli-hist', len(case['steps'])), case=case, klass='cli-hist')
        clock = t0
        for si, st in enumerate(case['steps']):
            files, dirs = [], []
            for dp, dn, fn in os.walk(root):
                for x in dn:
                    dirs.append(os.path.relpath(os.path.join(dp, x), root))
                for x in fn:
                    if not x.startswith('Manifest'):
                        files.append(os.path.relpath(os.path.join(dp, x), root))
            files.sort()
            dirs.sort()
            # every edit ends up newer than the TIMESTAMP the Manifest carries now
            # (a whole-tree update may have moved it to the present)
            import calendar
            for e in mtext.parse_file(os.path.join(root, 'Manifest')):
                if e['tag'] == 'TIMESTAMP':
                    t = e['ts']
                    clock = max(clock, calendar.timegm((
                        int(t[0:4]), int(t[5:7]), int(t[8:10]), int(t[11:13]),
                        int(t[14:16]), int(t[17:19]))))
            for ed in st['edits']:
                if not files:
                    break
                f = files[ed['pick'] % len(files)]
                with open(os.path.join(root, f), 'rb') as fh:
                    data = fh.read()
                if ed['same'] and data:
                    data = bytes((b + 1) % 256 for b in data)
                else:
                    data = data + b'+'
                with open(os.path.join(root, f), 'wb') as fh:
                    fh.write(data)
                if ed.get('same_second'):
                    # later than the TIMESTAMP, but within the second it names
                    mt = clock + 0.75
                else:
                    clock += 100
                    mt = clock
                os.utime(os.path.join(root, f), (mt, mt))
            if st['scope'] is not None and dirs:
                target = os.path.join(root, dirs[st['scope'] % len(dirs)])
                scope = os.path.relpath(target, root)
            else:
                target, scope = root, ''
            argv = ['update', '--hashes', hashes]
            if st['incremental'] and scope == '':
                argv.append('--incremental')
            rc = _cli(argv + [target])
            ctx.count('cli_history_steps')
            if rc != 0:
                ctx.count('cli_history_step_failed')
                return
            findings = update_post.check(root, 'Manifest', scope, hs)
            if findings:
                ctx.violation('post-cli-history:' + findings[0][0], 'step %d (%s%s): %r'
                              % (si, 'update ' + (scope or '<top>'),
                                 ' --incremental' if '--incremental' in argv else '',
                                 findings[:3]), case, {'step': si})
                return
        fk, fv = fresh_verify(root, '')
        ctx.count('cli_histories_verified')
        if fk == 'exc' or fv is not True:
            ctx.violation('post-cli-history:fresh-verify-fails', 'after the history a '
                          'fresh verification fails: %r' % (fv,), case)


def run_cli_history(u, ctx):
    for j in range(u['n']):
        rng = common.rng_for(ctx.seed, ID, 'clih', u['i'], j)
        skel = gtree.gen_skeleton(rng, max_dirs=4, max_files=8, hostile=0,
                                  hidden=False, symlinks=False, specials=False)
        steps = []
        for _ in range(rng.randint(2, 4)):
            steps.append({'edits': [{'pick': rng.randrange(1 << 20),
                                     'same': rng.random() < 0.7,
                                     'same_second': k == 0 and rng.random() < 0.4}
                                    for k in range(rng.randint(1, 3))],
                          'scope': rng.randrange(1 << 20) if rng.random() < 0.5 else None,
                          'incremental': rng.random() < 0.7})
        # the history ends with a whole-tree incremental update (edits outside the
        # scope of a sub-directory update are legitimately stale until then)
        steps.append({'edits': [], 'scope': None, 'incremental': True})
        case = {'kind': 'cli-hist', 'tree': skel, 'steps': steps,
                'hashes': rng.choice([['SHA256'], ['MD5', 'SHA1'], ['BLAKE2B', 'SHA512']])}
        exec_cli_history(ctx, case)


def adopted_data_listed(mans0, mans1):
    """Directories in which the previous state had a Manifest-named file listed by
    non-MANIFEST entries only (a plain file as far as verification is concerned)
    and no MANIFEST-referenced Manifest, and which have a MANIFEST-referenced
    Manifest now (known finding D33)."""
    from vf.checks import c10

    def referenced_dirs(mans):
        return {os.path.dirname(mp) for mp in mans
                if 'MANIFEST' in c10.listed_as(mans, mp)}
    before, after = referenced_dirs(mans0), referenced_dirs(mans1)
    out = set()
    for mp in mans0:
        t0 = c10.listed_as(mans0, mp)
        d = os.path.dirname(mp)
        if t0 and 'MANIFEST' not in t0 and d not in before and d in after:
            out.add(d)
    return out


def exec_adopt(ctx, case):
    """Profiles (C19 covers repositories created from scratch): a package directory
    in which the ebuild profiles want a Manifest already holds one, carrying DIST and
    IGNORE lines and a stale or exact entry, known to the tree by a MANIFEST entry, by
    a plain DATA/MISC entry or not at all; compressed or not."""
    from gemato import cli as gcli
    from vf.checks import c10
    with common.Scratch('vf-c03a-') as d:
        root = os.path.join(d, 't')
        mname = c10.build_adopt_tree(root, case)
        ctx.case(sig=('adopt', case['listed'], case['profile'], case['api'],
                      case['stale'], mname), case=case, klass='adopt')
        mans0 = c10.manifest_state(root)
        argv = ['gemato', 'update', '-p', case['profile'], '--hashes', 'SHA256', root]
        try:
            if case['api'] == 'cli':
                rc = gcli.main(argv)
                if rc != 0:
                    ctx.count('update_cli_rc:%s' % (rc,))
                    return
            else:
                from gemato.profile import get_profile_by_name
                from gemato.recursiveloader import ManifestRecursiveLoader
                m = ManifestRecursiveLoader(os.path.join(root, 'Manifest'),
                                            verify_openpgp=False, hashes=['SHA256'],
                                            profile=get_profile_by_name(case['profile']))
                m.update_entries_for_directory('')
                m.save_manifests()
        except SystemExit:
            ctx.count('update_cli_rc:exit')
            return
        except Exception as exc:
            ctx.count('update_raised:' + type(exc).__name__)
            return
        ctx.count('updates_completed')
        ctx.count('profile_updates_completed')
        findings = update_post.check(root, 'Manifest', '', ['SHA256'])
        ctx.count('postconditions_checked')
        mans1 = c10.manifest_state(root)
        adopted = adopted_data_listed(mans0, mans1)
        detail = {'findings': findings[:8], 'adopted': sorted(adopted)}
        done = set()
        for f in findings:
            kind, path, det = f
            lb = kind
            if any(mtext.comp_prefix(path, a) for a in adopted):
                lb = 'profile-adopts-data-listed-manifest:' + kind
            if lb in done:
                continue
            done.add(lb)
            ctx.violation('post:' + lb, 'after update -p %s completed without error: '
                          '%s %r %r' % ((case['profile'],) + tuple(f)), case, detail)
        if findings:
            return
        fk, fv = fresh_verify(root, '')
        ctx.count('fresh_verifications')
        if fk == 'exc' or fv is not True:
            ctx.violation('fresh-verify-fails:' + (adapt.exc_key(fv) if fk == 'exc'
                                                   else 'False'),
                          'a fresh verification after a successful update -p %s fails: %r'
                          % (case['profile'], fv), case, detail)


def run_adopt(ctx):
    for listed in ('manifest', 'data', 'misc', 'none'):
        for profile in ('ebuild', 'old-ebuild'):
            for api in ('cli', 'lib'):
                for stale in (False, True):
                    for name in ('Manifest', 'Manifest.gz', 'Manifest.xz',
                                 'Manifest.bz2'):
                        exec_adopt(ctx, {'kind': 'adopt', 'listed': listed,
                                         'profile': profile, 'api': api,
                                         'stale': stale, 'name': name})


def run_unit(u, ctx):
    if u['k'] == 'cli-hist':
        return run_cli_history(u, ctx)
    if u['k'] == 'adopt':
        return run_adopt(ctx)
    for j in range(u['n']):
        rng = common.rng_for(ctx.seed, ID, u['i'], j)
        with common.Scratch('vf-c03-') as d:
            root = os.path.join(d, 't')
            try:
                case = gen_history(rng, root, big=(u['k'] == 'big'))
                if u['k'] == 'big':
                    ctx.count('big_trees')
            except RuntimeError as exc:
                ctx.discarded('generator: %s' % exc)
                continue
            run_history(ctx, root, case)
            if j == 0:
                ctx.sample({'prior': case['mutations'], 'absent': case.get('absent'),
                            'rounds': case['rounds']}, 'history')


def replay(case, ctx):
    if case.get('kind') == 'cli-hist':
        return exec_cli_history(ctx, case)
    if case.get('kind') == 'adopt':
        return exec_adopt(ctx, case)
    with common.Scratch('vf-c03-') as d:
        root = os.path.join(d, 't')
        scenario.rebuild(root, case)
        run_history(ctx, root, case)
