"""C04 - only the OpenPGP-signed content of a signed Manifest is ever used.

(a) 'seq' units: bounded-exhaustive enumeration of line-class sequences through
    the real ManifestFile.load with a recording mock OpenPGP environment,
    compared with an independent recogniser of the cleartext-signature framing
    (vf.model.cleartext).  An FSM observer (sys.monitoring LINE events inside
    ManifestFile.load) records the (state, line class) pairs really visited.
(b) 'gpg' units: Manifests genuinely clear-signed by gpg, textually mutated;
    whenever loading with verification succeeds the entries must equal what
    `gpg --decrypt` says it authenticated.
"""
import inspect
import io
import itertools
import os
import sys

from vf import adapt, common
from vf.model import classify, cleartext, mtext

ID = 'C04'
LEVEL = 'exploration'
RULE = ('seq: every sequence of 1..N lines over 10 line classes {B signed-message '
        'header, S signature header, E signature end, O other armor-like, _ blank, H '
        'armor header/base64, V valid entry, D dash-escaped entry, A dash-escaped armor '
        'line, J junk} x final newline yes/no x verification on(mock)/off - exhaustive, '
        'distinct by construction; non-trivial = contains at least one armor-class line '
        'or a dash-escape. gpg: seeded textual mutants of gpg-signed Manifests; '
        'non-trivial = mutant differs from the original; distinct = distinct texts.')
ANCHORS = ['manifest:ManifestFile.load', 'openpgp:SystemGPGEnvironment.verify_file',
           'openpgp:SystemGPGEnvironment._spawn_gpg']
REQUIRED = ['manifest:ManifestFile.load', 'seq:accepted-signed', 'seq:rejected',
            'mock_verify_calls', 'gpg:accepted', 'gpg:rejected',
            'gpg:rejected-on-reused-object', 'gpg:resign_cases', 'gpg:filejunk_cases', 'gpg:fileinside_cases',
            'longline_cases', 'gpg:subsigned_cases']
ASSUMPTIONS = ['(a) uses a mock OpenPGP environment: the framing logic is what is '
               'decided there; (b) is relative to the installed GnuPG',
               'armor-like lines inside the armor-header section, and an END line '
               'without final newline, are unconstrained (U13)']

CLASSES = 'BSEO_HVDAJ'
NMAX = {'quick': 5, 'thorough': 7}


def EXHAUSTIVE(tier):
    return ('all line-class sequences of length 1..%d over 10 classes x final '
            'newline x verify on/off (part a)' % NMAX[tier])


def line_for(c, i):
    if c == 'B':
        return cleartext.BEGIN
    if c == 'S':
        return cleartext.SIGBEGIN
    if c == 'E':
        return cleartext.SIGEND
    if c == 'O':
        return ['-----BEGIN PGP MESSAGE-----',
                '-----BEGIN PGP SIGNED MESSAGE----- ',
                '-----END PGP SIGNATURE----- ',
                '----- x -----'][i % 4]
    if c == '_':
        return ['', ' ', '\t'][i % 3]
    if c == 'H':
        return ['Hash: SHA256', 'iQEzBAEBCAAdFiEEgeEsFr2NzWC+GAhFE2iA5yp7E4QFAlnZ',
                '=abcd', 'Comment: DATA evil 0',
                'Hash: SHA256\x0c\x0cDATA evil 0',
                'Comment: x\u2028\u2028DATA evil 0'][i % 6]
    if c == 'V':
        return 'DATA v%d %d' % (i, i)
    if c == 'D':
        return '- DATA d%d %d' % (i, i)
    if c == 'A':
        return ['- ' + cleartext.SIGBEGIN, '- ' + cleartext.BEGIN,
                '- ' + cleartext.SIGEND][i % 3]
    if c == 'J':
        return ['garbage here', 'DATA', 'FOO bar 1', '-', '- ', '-- x'][i % 6]
    raise ValueError(c)


def entry_ok(ln):
    v, info = classify.classify_line(ln)
    return v == classify.ACCEPT


def units(tier, seed):
    u = []
    n = NMAX[tier]
    plen = 2 if tier == 'quick' else 3
    for L in range(1, plen):
        for seq in itertools.product(CLASSES, repeat=L):
            u.append({'k': 'seq', 'exact': ''.join(seq)})
    for pre in itertools.product(CLASSES, repeat=plen):
        u.append({'k': 'seq', 'prefix': ''.join(pre), 'n': n})
    ngpg = 40 if tier == 'quick' else 1200
    for i in range(ngpg):
        u.append({'k': 'gpg', 'i': i, 'n': 100})
    for i in range(6 if tier == 'quick' else 100):
        u.append({'k': 'reload', 'i': i})
    for i in range(6 if tier == 'quick' else 60):
        u.append({'k': 'resign', 'i': i})
    for i in range(32):
        u.append({'k': 'filejunk', 'i': i})
    for i in range(12):
        u.append({'k': 'filejunk', 'i': i, 'inside': True})
    for i in range(4 if tier == 'quick' else 16):
        u.append({'k': 'longline', 'i': i})
    u.append({'k': 'subsigned'})
    return u


# --------------------------------------------------------------- monitors

class MockEnv:
    def __init__(self):
        self.calls = []

    def verify_file(self, f):
        self.calls.append(f.read())
        return 'SIGDATA'


class FsmObserver:
    """(state, line class) pairs seen at the top of ManifestFile.load's loop."""
    TOOL = 3

    def __init__(self):
        self.pairs = {}
        self.on = False

    def start(self):
        from gemato.manifest import ManifestFile
        mon = getattr(sys, 'monitoring', None)
        if mon is None:
            return False
        try:
            src, first = inspect.getsourcelines(ManifestFile.load)
        except OSError:
            return False
        target = None
        for k, ln in enumerate(src):
            if 'if state == ManifestState.DATA' in ln:
                target = first + k
                break
        if target is None:
            return False
        code = ManifestFile.load.__code__
        pairs = self.pairs
        DISABLE = mon.DISABLE

        def on_line(c, lineno):
            if lineno != target:
                return DISABLE
            fr = sys._getframe(1)
            st = fr.f_locals.get('state')
            ln = fr.f_locals.get('line', '')
            key = '%s/%s' % (st, class_of(ln.rstrip('\n')))
            pairs[key] = pairs.get(key, 0) + 1

        try:
            mon.use_tool_id(self.TOOL, 'vf-fsm')
        except ValueError:
            return False
        mon.register_callback(self.TOOL, mon.events.LINE, on_line)
        mon.set_local_events(self.TOOL, code, mon.events.LINE)
        self.on = True
        self._code = code
        return True

    def stop(self):
        if self.on:
            mon = sys.monitoring
            mon.set_local_events(self.TOOL, self._code, 0)
            mon.register_callback(self.TOOL, mon.events.LINE, None)
            mon.free_tool_id(self.TOOL)
            self.on = False


def class_of(ln):
    if ln == cleartext.BEGIN:
        return 'B'
    if ln == cleartext.SIGBEGIN:
        return 'S'
    if ln == cleartext.SIGEND:
        return 'E'
    if cleartext.is_armor_like(ln):
        return 'O'
    if cleartext.is_blank(ln):
        return '_'
    if ln.startswith('- -----'):
        return 'A'
    if ln.startswith('- '):
        return 'D'
    if entry_ok(ln):
        return 'V'
    if ':' in ln or '=' in ln or ln.startswith('iQ'):
        return 'H'
    return 'J'


_obs = None


def setup_worker(ctx):
    global _obs
    common.use_repo()
    _obs = FsmObserver()
    if not _obs.start():
        ctx.notes['fsm_observer_unavailable'] += 1


def finish_worker(ctx):
    if _obs is not None and _obs.on:
        _obs.stop()
        ctx.extra['fsm_pairs'] = dict(_obs.pairs)


# ------------------------------------------------------------- part (a)

def judge_text(ctx, text, case, enumerated=True, klass='seq'):
    """Load @text (verify on with mock, and off) and compare with the model."""
    from gemato.manifest import ManifestFile
    final_nl = text.endswith('\n')
    lines = text.split('\n')
    if final_nl:
        lines.pop()
    v = cleartext.analyse(lines, final_nl, entry_ok)
    want_entries = None
    if v.may_accept:
        want_entries = []
        for ln in v.body:
            e = mtext.parse_line(ln)
            if e is not None:
                want_entries.append(adapt.norm_model(e))
    nontrivial = any(cleartext.is_armor_like(ln) or ln.startswith('- ')
                     for ln in lines)
    sections = tuple(sorted({s for s, _ in v.trace}))
    results = []
    for verify in (True, False):
        mock = MockEnv()
        m = ManifestFile()
        ctx.case(sig=('seq', sections, v.must_fail, tuple(sorted(v.errors))),
                 nontrivial=nontrivial, enumerated=enumerated and nontrivial,
                 case=None if enumerated else case, klass=klass)
        try:
            m.load(io.StringIO(text), verify_openpgp=verify, openpgp_env=mock)
        except Exception as exc:
            name = type(exc).__name__
            ctx.count('seq:rejected')
            results.append(('exc', name))
            if name not in (cleartext.SYNTAX, cleartext.UNSIGNED):
                ctx.violation('load-raises:' + adapt.exc_key(exc),
                              'loading raised %s (only syntax-error / unsigned-data '
                              'are allowed)' % name, case, {'verify': verify})
            elif name not in v.errors:
                if v.errors:
                    ctx.violation('wrong-exception:%s-for-%s' % (
                        name, '+'.join(sorted(v.errors))),
                        'raised %s where the framing calls for %s (%s)' % (
                            name, sorted(v.errors), v.notes), case,
                        {'verify': verify})
                else:
                    ctx.violation('rejects-wellformed:' + name,
                                  'well-formed %s Manifest rejected with %s: %s' % (
                                      'signed' if v.signed else 'plain', name, exc),
                                  case, {'verify': verify})
            if mock.calls and v.signed_text is not None and \
                    mock.calls[0] != v.signed_text:
                pass    # handed text is judged only when loading succeeds
            continue
        got = [adapt.norm_gemato(e) for e in m.entries]
        results.append(('ok', got))
        if not v.may_accept:
            ctx.violation('accepts-bad-framing:' + '+'.join(sorted(v.errors)),
                          'accepted although the framing requires %s (%s); '
                          'entries %r' % (sorted(v.errors), v.notes, got), case,
                          {'verify': verify})
            continue
        if got != want_entries:
            ctx.violation('entries-not-signed-cleartext',
                          'entries differ from the dash-unescaped signed cleartext',
                          case, {'verify': verify, 'got': got,
                                 'want': want_entries})
            continue
        if v.signed:
            ctx.count('seq:accepted-signed')
            if verify:
                ctx.count('mock_verify_calls', len(mock.calls))
                if len(mock.calls) != 1 or mock.calls[0] != v.signed_text:
                    ctx.violation('wrong-text-to-verification',
                                  'signature verification was handed something '
                                  'other than exactly BEGIN..END', case,
                                  {'handed': mock.calls, 'want': v.signed_text})
                elif m.openpgp_signed is not True or \
                        m.openpgp_signature != 'SIGDATA':
                    ctx.violation('signed-flag-wrong', 'verified load does not '
                                  'report the Manifest as signed', case)
            else:
                if mock.calls or m.openpgp_signed:
                    ctx.violation('signed-flag-without-verification',
                                  'openpgp_signed set / env used although '
                                  'verification was disabled', case)
        else:
            ctx.count('seq:accepted-plain')
            if mock.calls or m.openpgp_signed:
                ctx.violation('signed-flag-on-plain', 'plain Manifest reported as '
                              'signed or handed to verification', case)
    if len(results) == 2 and results[0][0] == 'ok' and results[1][0] == 'ok' \
            and results[0][1] != results[1][1]:
        ctx.violation('entries-depend-on-verify-flag',
                      'entries differ between verification on and off', case)


def run_seq(u, ctx):
    if 'exact' in u:
        seqs = [u['exact']]
    else:
        pre = u['prefix']
        seqs = (pre + ''.join(rest)
                for L in range(0, u['n'] - len(pre) + 1)
                for rest in itertools.product(CLASSES, repeat=L))
    k = 0
    for seq in seqs:
        lines = [line_for(c, i) for i, c in enumerate(seq)]
        for nl in (True, False):
            text = '\n'.join(lines) + ('\n' if nl else '')
            judge_text(ctx, text, {'kind': 'text', 'text': text, 'classes': seq})
        k += 1
        if k % 20011 == 3:
            ctx.sample({'kind': 'text', 'classes': seq,
                        'text': '\n'.join(lines) + '\n'}, 'seq')


# ------------------------------------------------------------- part (b)

def run_gpg(u, ctx):
    from vf.mon import gpgenv
    from vf.checks import c04gpg
    c04gpg.run(u, ctx)


def run_unit(u, ctx):
    if u['k'] == 'seq':
        run_seq(u, ctx)
    elif u['k'] == 'reload':
        from vf.checks import c04gpg
        c04gpg.run_reload(u, ctx)
    elif u['k'] == 'resign':
        from vf.checks import c04gpg
        c04gpg.run_resign(u, ctx)
    elif u['k'] == 'filejunk':
        from vf.checks import c04gpg
        c04gpg.run_filejunk(u, ctx)
    elif u['k'] == 'longline':
        from vf.checks import c04gpg
        c04gpg.run_longline(u, ctx)
    elif u['k'] == 'subsigned':
        from vf.checks import c04gpg
        c04gpg.run_subsigned(u, ctx)
    else:
        run_gpg(u, ctx)


def replay(case, ctx):
    if case.get('kind') == 'reload':
        from vf.checks import c04gpg
        c04gpg.run_reload({'i': 0}, ctx)
    elif case.get('kind') == 'resign':
        from vf.checks import c04gpg
        c04gpg.run_resign({'i': case['i']}, ctx)
    elif case.get('kind') == 'filejunk':
        from vf.checks import c04gpg
        c04gpg.run_filejunk({'i': case['i'], 'inside': case.get('inside')}, ctx)
    elif case.get('kind') == 'subsigned':
        from vf.checks import c04gpg
        c04gpg.run_subsigned({}, ctx)
    elif case.get('kind') == 'gpgtext':
        from vf.checks import c04gpg
        c04gpg.replay(case, ctx)
    else:
        judge_text(ctx, case['text'], case, enumerated=False)
