"""C12 - update is idempotent and, with sorting, canonical.

idem   update; then update again on the unchanged tree: WriteAudit must see no
       write-intent event and every Manifest keeps bytes, mtime_ns and inode.
canon  two replicas of one tree whose previous Manifests list the same entries
       in different orders are updated (sort=True, everything rewritten) under
       different directory enumeration orders: all Manifest files must be
       byte-identical, compressed bytes included.
"""
import logging
import os
import shutil

from vf import adapt, common
from vf.checks import c03
from vf.gen import layout as glayout
from vf.gen import mutate as gmutate
from vf.gen import scenario
from vf.gen import tree as gtree
from vf.model import mtext
from vf.mon import audit, walkperm

ID = 'C12'
LEVEL = 'exploration'
RULE = ('idem: seeded tree + prior Manifest state + options {hash set, sort, watermark '
        'None/0/128/10**6, format} x {library, CLI, CLI -t}: update twice, second run '
        'audited; canon: the same tree twice with 4 permutations of previous entry order '
        'x 3 os.walk permutations, sort=True and forced rewrite, <= 1 Manifest per '
        'directory. Non-trivial = first update completed; distinct = hash of the case.')
ANCHORS = ['recursiveloader:ManifestRecursiveLoader.save_manifests',
           'recursiveloader:ManifestRecursiveLoader.update_entries_for_directory',
           'manifest:ManifestFile.dump', 'compression:open_compressed_file',
           'cli:UpdateCommand.__call__']
REQUIRED = ['recursiveloader:ManifestRecursiveLoader.save_manifests', 'idem_checked',
            'canon_pairs_compared', 'cli_idem_checked', 'same_loader_idem_checked',
            'recreate_pairs_compared']
ASSUMPTIONS = ['forced rewrites (--force-rewrite) are excluded from the idempotence '
               'half: rewriting is what was asked for',
               'canonical half: at most one Manifest per directory, no Manifest aliased '
               'through symlinks']

PRIOR = ['content', 'size', 'delete', 'stray', 'm-digest', 'm-drop', 'm-ghost',
         'm-compatible-dup', 'm-chain', 'unreg-valid', 'unreg-stale', 'unreg-invalid',
         'm-dist-twin', 'm-dup-ignore', 'm-compatible-dup-across',
         'm-compatible-dup-across']
N = {'quick': 400, 'thorough': 15000}
PER_UNIT = 8


def units(tier, seed):
    return [{'k': 'gen', 'i': i, 'n': PER_UNIT} for i in range(N[tier] // PER_UNIT)] + \
        [{'k': 'recreate', 'i': i, 'n': 4} for i in range(6 if tier == 'quick' else 200)]


def setup_worker(ctx):
    common.use_repo()
    logging.getLogger().setLevel(logging.CRITICAL)
    audit.install()


def manifest_snapshot(root):
    snap = {}
    for dp, dn, fn in os.walk(root):
        for f in fn:
            if f.startswith('Manifest'):
                p = os.path.join(dp, f)
                if os.path.isfile(p) and not os.path.islink(p):
                    st = os.stat(p)
                    with open(p, 'rb') as fh:
                        snap[os.path.relpath(p, root)] = (fh.read(), st.st_mtime_ns,
                                                          st.st_ino)
    return snap


def cli_update(root, opt, extra=(), command='update'):
    from gemato import cli as gcli
    argv = ['gemato', command, '--hashes', ' '.join(opt['hashes'])] + list(extra)
    if opt['watermark'] is not None:
        argv += ['-c', str(opt['watermark']), '-C', opt['format']]
    argv.append(root)
    try:
        return gcli.main(argv)
    except SystemExit as exc:
        return 'exit:%r' % (exc.code,)
    except Exception as exc:
        return exc


def judge_idem(ctx, root, case):
    opt = case['opt']
    mode = case['mode']
    dups = bool(c03.pre_state(root)['dup_paths'])
    if c03.crowded_dirs(root):
        ctx.unconstrained('several Manifest-named files in one directory / aliased '
                          'Manifest (U14/U15)')
        return
    kept = []
    if mode in ('lib', 'lib-same'):
        kind, val = c03.do_update(root, opt, keep=kept)
        ok = kind == 'ok'
    else:
        rc = cli_update(root, opt, ['-t'] if mode == 'cli-t' else [])
        ok = rc == 0
    ctx.case(sig=('idem', mode, opt['sort'], opt['watermark'], ok), case=case,
             nontrivial=ok, klass='idem-' + mode)
    if not ok:
        ctx.count('first_update_failed')
        return
    snap1 = manifest_snapshot(root)
    tsnap1 = gtree.snapshot(root)
    with audit.Recording(root) as rec:
        if mode in ('lib', 'lib-same'):
            opt2 = dict(opt, wseed=opt['wseed'] + 1)
            # 'lib-same': the loader object of the first update does the second one
            kind, val = c03.do_update(root, opt2, loader=kept[0] if mode == 'lib-same'
                                      and kept else None)
            ok2 = kind == 'ok'
            if mode == 'lib-same':
                ctx.count('same_loader_idem_checked')
        else:
            rc = cli_update(root, opt, ['-t'] if mode == 'cli-t' else [])
            ok2 = rc == 0
            val = rc
    ctx.count('idem_checked')
    if mode.startswith('cli'):
        ctx.count('cli_idem_checked')
    if not ok2:
        ctx.violation('second-update-fails:' + (adapt.exc_key(val) if isinstance(
            val, Exception) else str(val)), 'update succeeded once but fails when '
            'repeated on the unchanged tree: %r' % (val,), case)
        return
    snap2 = manifest_snapshot(root)
    changed = sorted(k for k in set(snap1) | set(snap2) if snap1.get(k) != snap2.get(k))
    if rec.events or changed:
        what = []
        for k in changed:
            a, b = snap1.get(k), snap2.get(k)
            if a is None or b is None:
                what.append((k, 'appeared' if a is None else 'vanished'))
            elif a[0] != b[0]:
                what.append((k, 'bytes'))
            elif a[2] != b[2]:
                what.append((k, 'inode'))
            else:
                what.append((k, 'mtime'))
        kinds = sorted({w[1] for w in what}) or ['write-events-only']
        if dups:
            # known C03 mechanism: the stale twin of a same-Manifest duplicate
            # survives the first update and is only repaired by the second
            kinds = ['same-manifest-duplicate']
            mode = 'any'
        ctx.violation('rewrites-on-unchanged-tree:%s:%s' % (mode, '+'.join(kinds)),
                      'second update on an unchanged tree rewrote %r (audit events: '
                      '%r)' % (what[:4], rec.events[:3]), case)
    elif gtree.snapshot(root) != tsnap1:
        ctx.violation('tree-changed-on-repeat', 'the tree changed during the repeated '
                      'update', case)


def make_replica(rng, root, skel, layout, ops, shuffle_seed):
    """Materialise the same tree with the entries of every previous Manifest in
    another order (consistent chain re-rendered by the independent writer)."""
    gtree.materialize(skel, root)
    lay = glayout.strip_private(layout)
    for m, d in layout['mans'].items():
        lay['mans'][m]['entries'] = [dict(e) for e in d['entries']]
    r = common.rng_for('shuffle', shuffle_seed)
    for m in sorted(lay['mans']):
        r.shuffle(lay['mans'][m]['entries'])
        # ... and the checksum fields of every line in another order as well
        for e in lay['mans'][m]['entries']:
            names = sorted(e.get('_auto') or e.get('sums') or [])
            if len(names) > 1:
                r.shuffle(names)
                e['_sum_order'] = names
    gmutate.apply_ops(root, [o for o in ops if not o.get('after_render')])
    glayout.render(root, lay)
    return lay


def judge_canon(ctx, d, case, skel, layout, ops):
    opt = dict(case['opt'], sort=True, force=True, api='lib', create=False, scope='')
    results = []
    dups = False
    for k, (sseed, wseed) in enumerate(case['replicas']):
        root = os.path.join(d, 'r%d' % k)
        make_replica(None, root, skel, layout, ops, sseed)
        if c03.crowded_dirs(root):
            ctx.discarded('more than one Manifest in a directory')
            return
        pre = c03.pre_state(root)
        if pre['same_dir_chain']:
            ctx.discarded('canonical half needs <= 1 Manifest per directory')
            shutil.rmtree(root, ignore_errors=True)
            return
        dups = dups or bool(pre['dup_paths'])
        kind, val = c03.do_update(root, dict(opt, wseed=wseed))
        if kind != 'ok':
            results.append(('fail', adapt.exc_key(val) if kind == 'exc' else str(val)))
        else:
            results.append(('ok', {k2: v[0] for k2, v in manifest_snapshot(root).items()}))
        shutil.rmtree(root, ignore_errors=True)
    ctx.case(sig=('canon', opt['watermark'], opt['format'],
                  tuple(r[0] for r in results)), case=case,
             nontrivial=all(r[0] == 'ok' for r in results), klass='canon')
    oks = [r[1] for r in results if r[0] == 'ok']
    if len(oks) != len(results):
        if oks:
            ctx.violation('canon-outcome-depends-on-order', 'update succeeded in some '
                          'replicas and failed in others: %r' % (
                              [r if r[0] == 'fail' else 'ok' for r in results],), case)
        return
    for other in oks[1:]:
        ctx.count('canon_pairs_compared')
        if other != oks[0]:
            diff = sorted(k for k in set(other) | set(oks[0])
                          if other.get(k) != oks[0].get(k))
            a = oks[0].get(diff[0])
            b = other.get(diff[0])
            why = 'set-of-files'
            if a is not None and b is not None:
                try:
                    ta = mtext.decompress_named(diff[0], a)
                    tb = mtext.decompress_named(diff[0], b)
                    if ta == tb:
                        why = 'compressed-bytes'
                    elif sorted(ta.split(b'\n')) == sorted(tb.split(b'\n')):
                        why = 'entry-order'
                    else:
                        why = 'entries'
                except Exception:
                    why = 'undecodable'
            if dups:
                why = 'same-manifest-duplicate'
            ctx.violation('not-canonical:' + why,
                          'with sorting, Manifest %r differs between replicas that only '
                          'differ in previous entry order / enumeration order (%s)'
                          % (diff[0], why), case,
                          {'a': repr(a)[:600], 'b': repr(b)[:600]})
            return


def run_unit(u, ctx):
    if u['k'] == 'recreate':
        return run_recreate(u, ctx)
    for j in range(u['n']):
        rng = common.rng_for(ctx.seed, ID, u['i'], j)
        with common.Scratch('vf-c12-') as d:
            root = os.path.join(d, 't')
            nmut = rng.choice([0, 1, 2, 3])
            try:
                case, layout, info = scenario.build(
                    rng, root, PRIOR, nmut, {'p_split': 0.15, 'specials': False,
                                             'symlinks': rng.random() < 0.3})
            except RuntimeError as exc:
                ctx.discarded('generator: %s' % exc)
                continue
            opt = {'api': 'lib', 'create': False, 'scope': '',
                   'hashes': sorted(rng.sample(mtext.supported_hashes(),
                                               rng.randint(1, 3))),
                   'sort': rng.random() < 0.6, 'force': False,
                   'watermark': rng.choice([None, 0, 128, 10**6]),
                   'format': rng.choice(['gz', 'bz2', 'lzma', 'xz']),
                   'wseed': rng.randrange(1 << 30)}
            unions = [r['union'] for r in case['mutations'] if r.get('union')]
            if unions and rng.random() < 0.7:
                # the requested hash set is exactly what two entries for one file,
                # in two Manifests, have between them
                opt['hashes'] = list(unions[0])
                ctx.count('union_hash_set_updates')
            case['opt'] = opt
            case['mode'] = rng.choice(['lib', 'lib', 'cli', 'cli-t', 'lib-same'])
            case['replicas'] = [[rng.randrange(1 << 30), rng.randrange(1 << 30)]
                                for _ in range(rng.choice([2, 3, 4]))]
            case['kind'] = 'c12'
            case['layout'] = glayout.strip_private(layout)
            # canonical half first (needs the pristine prior state)
            all_ops = list(case['ops'])
            judge_canon(ctx, d, case, case['skel'], layout, all_ops)
            judge_idem(ctx, root, case)
            if j == 0:
                ctx.sample({'prior': case['mutations'], 'opt': opt,
                            'mode': case['mode']}, 'c12')


def exec_recreate(ctx, case):
    """The canonical clause across histories: `gemato create -p P` on a repository
    after an edit must write the same Manifests whether or not the repository was
    already created once before the edit (create on an existing tree is an update
    that may also create)."""
    from vf.gen import repo as grepo
    prof = case['profile']
    with common.Scratch('vf-c12r-') as d:
        results = []
        for variant in ('edit-then-create', 'create-edit-create'):
            root = os.path.join(d, variant)
            gtree.materialize(case['tree'], root)
            cmds = []
            if variant == 'create-edit-create':
                cmds.append('create')
            cmds.append('EDIT')
            cmds.append('create')
            ok = True
            for c in cmds:
                if c == 'EDIT':
                    for rel, text in case['edits']:
                        os.makedirs(os.path.dirname(os.path.join(root, rel)), exist_ok=True)
                        with open(os.path.join(root, rel), 'w') as f:
                            f.write(text)
                    continue
                rc = cli_update(root, {'hashes': case['hashes'], 'watermark': None,
                                       'format': 'gz', 'force': False},
                                ['-p', prof], command='create')
                if rc != 0:
                    ok = False
                    break
            results.append(None if not ok else
                           {k: v[0] for k, v in manifest_snapshot(root).items()})
        ctx.case(sig=('recreate', prof), case=case,
                 nontrivial=all(r is not None for r in results), klass='recreate')
        if any(r is None for r in results):
            ctx.count('recreate_failed')
            return
        ctx.count('recreate_pairs_compared')
        a, b = results
        if a != b:
            diff = sorted(k for k in set(a) | set(b) if a.get(k) != b.get(k))
            ctx.violation('not-canonical:create-on-existing-tree', 'Manifest %r differs '
                          'between "edit, create" and "create, edit, create" (profile %s)'
                          % (diff[0], prof), case,
                          {'a': repr(a.get(diff[0]))[:500], 'b': repr(b.get(diff[0]))[:500]})


def run_recreate(u, ctx):
    from vf.gen import repo as grepo
    for j in range(u['n']):
        rng = common.rng_for(ctx.seed, ID, 'recreate', u['i'], j)
        tree, cats = grepo.gen_repo(rng, portable=True, with_ignored=rng.random() < 0.5)
        files = sorted(n['p'] for n in tree['nodes'] if n['t'] == 'f')
        edits = [('header.txt', 'added at the top %d\n' % rng.randrange(1000))]
        if files:
            f = rng.choice(files)
            edits.append((f, 'edited %d\n' % rng.randrange(1000)))
        case = {'kind': 'recreate', 'tree': tree, 'edits': edits,
                'profile': rng.choice(['ebuild', 'old-ebuild']),
                'hashes': rng.choice([['SHA256'], ['BLAKE2B', 'SHA512']])}
        exec_recreate(ctx, case)


def replay(case, ctx):
    if case.get('kind') == 'recreate':
        return exec_recreate(ctx, case)
    with common.Scratch('vf-c12-') as d:
        root = os.path.join(d, 't')
        scenario.rebuild(root, case)
        judge_canon(ctx, d, case, case['skel'], case['layout'], list(case['ops']))
        judge_idem(ctx, root, case)
